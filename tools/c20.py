"""C20 - Bitswap blocks are verified against their content identifier + response batching
(Bitswap.tla, BitswapMC.tla, BitswapCertMC.tla, BitswapTrace.tla; harness bin `bitswap`)."""
import json
import os
from vlib import *

ASSUME = [
    "hash functions (sha2, multihash-codetable) and the cid crate are trusted; SHA2-256/512 and the CID bytes are "
    "recomputed by the harness with the sha2 crate and a hand-written CID/varint encoder, the SHA3/Keccak/BLAKE2b "
    "digests with the harness's own multihash-codetable call on the received bytes (never the claimed CID)",
    "'fits a message' is read as size <= MAX_BATCH_SIZE (the payload capacity the protocol gives one message); blocks "
    "larger than that may be dropped or sent; the message limit is MAX_MESSAGE_SIZE",
    "a well-formed SHA2-256 block must be delivered; for the other compiled-in hash functions and for a declared digest "
    "length that contradicts the hash function the statement leaves delivery open (either verdict accepted)",
    "certification is sampled inside each abstract class (seeded byte strings), not decided for all byte strings",
    "messages are observed at the raw end of an in-memory yamux stream carrying a real litep2p Substream; a run that "
    "hits the 15 s write timeout of the code under test is discarded and counted, never judged",
    "TLC results hold for the stated small constants",
]

MC_LINES = ["SPECIFICATION Spec", "PROPERTIES ExtractOK Progress Termination", "CHECK_DEADLOCK FALSE"]
GEN_LINES = ["SPECIFICATION Spec", "ACTION_CONSTRAINT Emit", "CHECK_DEADLOCK FALSE"]
PRES = {"Presences": {"none", "under", "over"}, "SendOverLimitPresence": False}
UNITS = dict(PRES, CB=4, CM=8, CO=0, CW=0)
BYTES = dict(PRES, CB=4, CM=6, CO=1, CW=1)
KF_TINY = "tiny-blocks-batch-over-message-limit"
KF_OVERFLOW = "overflowing-varint-prefix-delivered"


def mc_cfgs(ctx):
    """(name, spec, constants, lines): exhaustive runs of this tier."""
    q = ctx.quick()
    return [
        # sizes in 512 KiB units: B = 2 MiB, M = 4 MiB, framing negligible: the Impl layer must satisfy C20 outright
        ("units", "BitswapMC.tla", dict(UNITS, Sizes={0, 1, 2, 3, 4, 5}, MaxQ=5 if q else 7), MC_LINES + ["INVARIANTS PropInv"]),
        # byte-like scale where the per-block framing matters: C20 holds except for the recorded finding
        ("bytes", "BitswapMC.tla", dict(BYTES, Sizes={0, 1, 2, 5} if q else {0, 1, 2, 3, 5}, MaxQ=6 if q else 7),
         MC_LINES + ["INVARIANTS PropInvKF"]),
        ("cert", "BitswapCertMC.tla", {"KnownFindings": True}, ["SPECIFICATION Spec", "INVARIANTS TableOK", "CHECK_DEADLOCK FALSE"]),
        # certification per message: all sequences of block verdict kinds through the per-block loop
        ("certmsg", "BitswapMsgMC.tla", {"MaxBlocks": 4 if q else 5, "ZipByPosition": False},
         ["SPECIFICATION Spec", "INVARIANTS MsgOK", "CHECK_DEADLOCK FALSE"]),
    ]


def classify(seg, idx):
    """Stable signature of a rejected segment (seg: lines, idx: 1-based offending line)."""
    ev = json.loads(seg[idx - 1])
    head = json.loads(seg[0])
    e = ev.get("e")
    if e == "cert":
        c = ev["c"]
        if c["pfx"] == "overflow" and ev["verdict"] == "deliver" and ev["cid_ok"] and ev["data_ok"]:
            return KF_OVERFLOW
        what = ev["verdict"] if ev["verdict"] != "deliver" or (ev["cid_ok"] and ev["data_ok"]) else \
            "deliver-" + ("cid-mismatch" if not ev["cid_ok"] else "data-mismatch")
        return "cert-%s-%s-%s-%s-%s:%s" % (c["pfx"], c["ver"], c["codec"], c["hash"], c["mhlen"], what)
    if e == "certmsg":
        if ev["out"] != "ok":
            return "certmsg:%s" % ev["out"]
        kinds, dl = ev["kinds"], ev["delivered"]
        if any(x["d"] == 0 or not kinds[x["d"] - 1].startswith("deliver") for x in dl):
            return "certmsg:dropped-block-delivered"
        if any(x["c"] != x["d"] for x in dl):
            return "certmsg:deliver-cid-mismatch"
        want = [i + 1 for i, k in enumerate(kinds) if k.startswith("deliver")]
        got = [x["d"] for x in dl]
        return "certmsg:deliverable-block-lost" if set(want) - set(got) else "certmsg:delivery-order-or-duplicate"
    if e == "done":
        sizes, b = head["sizes"], head["B"]
        covered = set()
        for ln in seg[1:idx - 1]:
            m = json.loads(ln)
            for lo, hi in m.get("r", []):
                covered.update(range(lo, hi + 1))
        lost = [i + 1 for i, s in enumerate(sizes) if s <= b and i + 1 not in covered]
        if lost and all(sizes[i - 1] <= 32 for i in lost) and len(lost) >= 65536:
            return KF_TINY
        return "fitting-block-not-sent"
    if e == "msg":
        return "message-over-limit" if ev["len"] > head["M"] else "block-duplicated-or-out-of-order"
    if e == "extract":
        return "extract-next-batch-%s" % ("none-with-fitting-left" if not ev["some"] else "loses-or-reorders-or-stalls")
    return {"enc": "blocks-message-content", "panic": "panic", "abort": "send-response-aborted-by-own-message"}.get(e, "unexplained-%s" % e)


def what_of(seg, idx):
    ev = json.loads(seg[idx - 1])
    head = json.loads(seg[0])
    d = dict(ev)
    if len(head.get("sizes", [])) > 40:
        head = dict(head, sizes="%d sizes, first %s" % (len(head["sizes"]), head["sizes"][:8]))
    return "real Bitswap step not allowed by the Prop layer of Bitswap.tla: %s in segment %s" % (json.dumps(d)[:400], json.dumps(head)[:300])


def replay_obj(seg, idx, seed):
    head = json.loads(seg[0])
    obj = {"property": "C20", "kind": head.get("kind"), "seed": seed, "rejected_event_index": idx}
    if head.get("kind") == "certmsg":
        obj.update({"event": json.loads(seg[idx - 1]), "bi": head.get("bi"), "kinds": json.loads(seg[idx - 1])["kinds"]})
    elif head.get("kind") == "cert":
        ev = json.loads(seg[idx - 1])
        obj.update({"class": ev.get("c"), "ci": head.get("ci"), "event": ev})
    else:
        sizes = head.get("sizes", [])
        if len(sizes) > 64 and len(set(sizes)) == 1:
            obj.update({"sizes_rle": [[len(sizes), sizes[0]]]})
        else:
            obj.update({"sizes": sizes})
        obj.update({"B": head.get("B"), "M": head.get("M"), "presences": head.get("presences", 0)})
    return obj


def is_reset(ln):
    return '"e":"reset"' in ln


def validate(ctx, lines, mode, tag, max_rejects=8):
    return validate_segments(ctx, "BitswapTrace.tla", "BitswapTrace.cfg", lines, mode=mode, tag=tag,
                             max_rejects=max_rejects, is_reset=is_reset)


def partition(lines):
    """One part per kind of segment, so that rejections of one kind cannot exhaust the reject budget of
    the others; segments that can hit a recorded finding go to a (small) part of their own."""
    parts = {"cert": [], "certmsg": [], "fn": [], "e2e": [], "side": []}
    for seg in split_segments(lines, is_reset):
        h = json.loads(seg[0])
        tiny = h.get("kind") == "e2e" and len(h.get("sizes", [])) >= 65536
        if h.get("pfx") == "overflow" or tiny:
            parts["side"].extend(seg)
        else:
            parts["e2e" if h.get("kind", "").startswith("e2e") else h.get("kind")].extend(seg)
    return parts


def harness_args(ctx, paths):
    q = ctx.quick()
    return ["--classes", paths["classes"], "--per-class", 6 if q else 40, "--messages", paths["msgs"], "--per-msg", 4 if q else 12,
            "--behaviours", paths["behs"], "--fn-real-scale", 40 if q else 1500,
            "--random", 600 if q else 20000, "--len", 24,
            "--e2e-sample", 40 if q else 1200, "--e2e-random", 40 if q else 1500, "--e2e-tiny", 3 if q else 9, "--e2e-presence", 3 if q else 12,
            "--seed", ctx.seed, "--out", paths["trace"]]


def check(ctx):
    mc = []
    for name, spec, consts, lines in mc_cfgs(ctx):
        r = tlc_mc(ctx, spec, write_cfg(ctx, "mc_%s.cfg" % name, consts, lines), workers=4)
        if not r["ok"]:
            raise ToolError("the Impl layer of Bitswap violates the Prop layer in config %s (model error, not a code "
                            "verdict):\n%s" % (name, r.get("error", r["out"][-2000:])))
        mc.append(dict({k: r[k] for k in ("transitions", "distinct", "depth", "wall_s") if k in r}, cfg=name))
        log("MC %s: %s" % (name, mc[-1]))
    behs, g1 = tlc_generate(ctx, "BitswapMC.tla", write_cfg(
        ctx, "gen.cfg", dict(UNITS, Sizes={0, 1, 2, 3, 4, 5}, MaxQ=4 if ctx.quick() else 5), GEN_LINES))
    classes, g2 = tlc_generate(ctx, "BitswapCertMC.tla", write_cfg(ctx, "cgen.cfg", {"KnownFindings": True}, GEN_LINES))
    for i, c in enumerate(classes):
        c["ci"] = i
    log("GEN: %s | %s" % (g1, g2))
    msgs, g3 = tlc_generate(ctx, "BitswapMsgMC.tla", write_cfg(
        ctx, "mgen.cfg", {"MaxBlocks": 3 if ctx.quick() else 4, "ZipByPosition": False}, GEN_LINES))
    for i, m in enumerate(msgs):
        m["bi"] = i
    log("GEN messages: %s" % g3)
    paths = {"behs": ctx.path("behs.jsonl"), "classes": ctx.path("classes.jsonl"), "trace": ctx.path("trace.ndjson"),
             "msgs": ctx.path("msgs.jsonl")}
    write_jsonl(paths["msgs"], msgs)
    write_jsonl(paths["behs"], behs)
    write_jsonl(paths["classes"], classes)
    build_s = cargo_build(ctx, ["bitswap"])
    summ, _ = harness(ctx, "bitswap", harness_args(ctx, paths), timeout=1500)
    log("HARNESS: %s (build %ss)" % (summ, build_s))
    lines = read_lines(paths["trace"])
    parts = partition(lines)
    violations, nseg, nev, drift = [], 0, 0, []
    for tag, part in parts.items():
        if not part:
            continue
        s, e, rejects = validate(ctx, part, "prop", tag, max_rejects=40 if tag == "side" else 8)
        nseg, nev = nseg + s, nev + e
        for seg, idx in rejects:
            violations.append({"sig": classify(seg, idx), "what": what_of(seg, idx), "replay_obj": replay_obj(seg, idx, ctx.seed)})
        # drift detector: exact conformance to the Impl transcription (never a verdict)
        _, _, d = validate(ctx, part, "impl", "d" + tag, max_rejects=3)
        drift += d
    for seg, idx in drift:
        log("NOTE drift: real code deviates from the Impl layer at %s" % seg[idx - 1][:300])
    segs = split_segments(lines, is_reset)
    kinds, verdicts = {}, {}
    distinct = set()
    for s in segs:
        h = json.loads(s[0])
        kinds[h["kind"]] = kinds.get(h["kind"], 0) + 1
        if h["kind"] == "certmsg":
            for ln in s[1:]:
                distinct.add("certmsg:" + json.loads(ln)["message"])
        elif h["kind"] == "cert":
            for ln in s[1:]:
                ev = json.loads(ln)
                k = "%s/%s" % (ev["via"], ev["verdict"])
                verdicts[k] = verdicts.get(k, 0) + 1
                distinct.add(ev["prefix"] + ":" + str(ev["dlen"]) + ":" + ev["c"]["payload"])
        else:
            distinct.add(h["kind"] + ":" + ",".join(map(str, h["sizes"][:64])) + ":%d:%d" % (len(h["sizes"]), h["B"]))
    if kinds.get("e2e", 0) == 0 or kinds.get("fn", 0) == 0 or kinds.get("cert", 0) == 0 or kinds.get("certmsg", 0) == 0:
        raise ToolError("a part of the C20 harness produced no executions: %s" % kinds)
    sample = [json.loads(x) for x in (segs[0][:3] + segs[len(segs) // 2][:3])]
    for x in sample:
        if len(x.get("sizes", [])) > 16:
            x["sizes"] = x["sizes"][:16] + ["..."]
    cov = {
        "states": sum(m["distinct"] for m in mc),
        "transitions": sum(m["transitions"] for m in mc),
        "traces_validated_against_impl": nseg,
        "events_validated": nev,
        "samples": sample,
        "evaluations": nseg,
        "distinct_nontrivial": len(distinct),
        "rule": "batching: a case is one response set (size sequence) executed through the real extract_next_batch/"
                "blocks_message (kind fn) or the real send_response over a real Substream (kind e2e), distinct = distinct "
                "(kind, size sequence, B); certification: a case is one concrete (prefix bytes, payload) handed to the real "
                "block_to_response / on_message_received, distinct = distinct (prefix bytes, payload length, intact/tampered)",
        "levels": {"batching": "model_checking", "certification": "exploration"},
        "model_runs": mc,
        "generation": [g1, g2, g3],
        "certmsg_sequences": len(msgs),
        "harness": summ,
        "segments_by_kind": kinds,
        "cert_verdicts": verdicts,
        "cert_classes": len(classes),
        "impl_divergences": len(drift),
        "exhaustive": False,
    }
    return conclude(ctx, "model_checking", cov, violations, ASSUME)


def _expect_reject(ctx, name, lines, want_line=None, later_ok=False):
    p = ctx.path("st_%s.ndjson" % name.split()[0])
    with open(p, "w") as f:
        f.write("\n".join(lines) + "\n")
    r = tlc_trace(ctx, "BitswapTrace.tla", "BitswapTrace.cfg", p)
    ok = r is not None and (want_line is None or r == want_line or (later_ok and r > want_line))
    log("selftest %s -> %s%s" % (name, "rejected at line %s" % r if r else "ACCEPTED", "" if ok else "  (UNEXPECTED)"))
    return ok


def selftest(ctx):
    """(a) binding: corrupted copies of good recorded traces and harness fault injections must be
    rejected at the corrupted line; (b) negative models: the strict configs without the recorded
    findings, and a mutated Impl, must make TLC report the property violated."""
    ok = True
    behs, _ = tlc_generate(ctx, "BitswapMC.tla", write_cfg(ctx, "gen.cfg", dict(UNITS, Sizes={0, 2, 3, 5}, MaxQ=3), GEN_LINES))
    classes, _ = tlc_generate(ctx, "BitswapCertMC.tla", write_cfg(ctx, "cgen.cfg", {"KnownFindings": True}, GEN_LINES))
    classes = [c for c in classes if c["c"]["pfx"] != "overflow"][::97]
    write_jsonl(ctx.path("behs.jsonl"), behs)
    write_jsonl(ctx.path("classes.jsonl"), classes)
    cargo_build(ctx, ["bitswap"])
    msgs, _ = tlc_generate(ctx, "BitswapMsgMC.tla", write_cfg(ctx, "mgen.cfg", {"MaxBlocks": 2, "ZipByPosition": False}, GEN_LINES))
    write_jsonl(ctx.path("msgs.jsonl"), msgs)
    base = ["--messages", ctx.path("msgs.jsonl"), "--per-msg", 2, "--classes", ctx.path("classes.jsonl"), "--per-class", 3, "--behaviours", ctx.path("behs.jsonl"),
            "--e2e-random", 6, "--seed", ctx.seed]
    harness(ctx, "bitswap", base + ["--out", ctx.path("good.ndjson")])
    good = read_lines(ctx.path("good.ndjson"))
    if tlc_trace(ctx, "BitswapTrace.tla", "BitswapTrace.cfg", ctx.path("good.ndjson")) is not None:
        raise ToolError("selftest baseline trace rejected")

    def corrupt(pred, mut, name, later_ok=False):
        for i, ln in enumerate(good):
            ev = json.loads(ln)
            if pred(ev):
                mut(ev)
                return _expect_reject(ctx, name, good[:i] + [json.dumps(ev, separators=(",", ":"))] + good[i + 1:], i + 1, later_ok)
        log("selftest %s: no suitable event" % name)
        return False

    ok &= corrupt(lambda e: e["e"] == "cert" and e["verdict"] == "deliver" and e["c"]["payload"] == "tampered",
                  lambda e: e.update(cid_ok=False), "cert-cid-mismatch")
    ok &= corrupt(lambda e: e["e"] == "cert" and e["verdict"] == "deliver" and e["c"]["hash"] == "sha2_256" and e["c"]["mhlen"] == "true",
                  lambda e: e.update(verdict="drop"), "cert-valid-dropped")
    ok &= corrupt(lambda e: e["e"] == "cert" and e["verdict"] == "drop" and e["c"]["pfx"] not in ("ok", "overflow"),
                  lambda e: e.update(verdict="deliver", cid_ok=True, data_ok=True), "cert-malformed-delivered")
    ok &= corrupt(lambda e: e["e"] == "extract" and e["some"] and len(e["batch"]) >= 2,
                  lambda e: e.update(batch=e["batch"][:-1]), "extract-block-lost")
    ok &= corrupt(lambda e: e["e"] == "extract" and e["some"] and len(e["batch"]) >= 2,
                  lambda e: e.update(batch=e["batch"][::-1]), "extract-reordered")
    ok &= corrupt(lambda e: e["e"] == "msg" and len(e["r"]) >= 1,
                  lambda e: e.update(len=4 * 1024 * 1024 + 1), "msg-over-limit")
    ok &= corrupt(lambda e: e["e"] == "msg" and len(e["r"]) >= 1 and e["r"][0][0] < e["r"][0][1],
                  lambda e: e.update(r=[[e["r"][0][0] + 1, e["r"][0][1]]] + e["r"][1:]), "msg-block-missing (detected at `done`)", later_ok=True)
    ok &= corrupt(lambda e: e["e"] == "certmsg" and len(e["delivered"]) >= 1,
                  lambda e: e["delivered"][0].update(c=0), "certmsg-cid-of-nobody")
    ok &= corrupt(lambda e: e["e"] == "certmsg" and len(e["delivered"]) >= 1 and len(e["kinds"]) > len(e["delivered"]),
                  lambda e: e["delivered"].append({"d": [i + 1 for i, k in enumerate(e["kinds"]) if not k.startswith("deliver")][0], "c": 1}),
                  "certmsg-dropped-block-delivered")
    # harness fault injections: the same pipeline, the observation perturbed inside the harness
    for fault in ("cert-claimed-cid", "batch-drop-one", "batch-dup", "msg-oversize", "msg-zip"):
        harness(ctx, "bitswap", base + ["--out", ctx.path("f.ndjson")], env={"VERIF_FAULT": fault})
        r = tlc_trace(ctx, "BitswapTrace.tla", "BitswapTrace.cfg", ctx.path("f.ndjson"))
        log("selftest fault %s -> %s" % (fault, "rejected at line %s" % r if r else "ACCEPTED"))
        ok &= r is not None
    # negative models
    negs = [
        ("bytes-strict", "BitswapMC.tla", dict(BYTES, Sizes={0, 1, 2, 5}, MaxQ=5), MC_LINES + ["INVARIANTS PropInv"]),
        ("presence-over-limit-sent", "BitswapMC.tla", dict(UNITS, Sizes={0, 2, 5}, MaxQ=3, SendOverLimitPresence=True), MC_LINES + ["INVARIANTS PropInv"]),
        ("cert-strict", "BitswapCertMC.tla", {"KnownFindings": False}, ["SPECIFICATION Spec", "INVARIANTS TableOK", "CHECK_DEADLOCK FALSE"]),
        ("certmsg-zip-by-position", "BitswapMsgMC.tla", {"MaxBlocks": 3, "ZipByPosition": True}, ["SPECIFICATION Spec", "INVARIANTS MsgOK", "CHECK_DEADLOCK FALSE"]),
    ]
    for name, spec, consts, lines in negs:
        r = tlc_mc(ctx, spec, write_cfg(ctx, "neg_%s.cfg" % name, consts, lines), workers=2, expect_violation=True)
        bad = "is violated" in r["out"]
        log("selftest negative model %s -> %s" % (name, "violated (as it must)" if bad else "NOT violated"))
        ok &= bad
    # mutated Impl: the oversized head is not dropped (a guard removed) -> no progress / loss
    src = open(os.path.join(SPEC, "Bitswap.tla")).read()
    mut = src.replace("ELSE IF Head(q).size > B THEN DropOversizedHead(Tail(q), B) ELSE q", "ELSE q")
    assert mut != src
    os.makedirs(ctx.path("mut"), exist_ok=True)
    open(ctx.path("mut/Bitswap.tla"), "w").write(mut)
    for f in ("BitswapMC.tla",):
        open(ctx.path("mut/" + f), "w").write(open(os.path.join(SPEC, f)).read())
    cfg = write_cfg(ctx, "neg_mut.cfg", dict(UNITS, Sizes={0, 2, 5}, MaxQ=3), MC_LINES + ["INVARIANTS PropInv"])
    r = tlc_mc(ctx, ctx.path("mut/BitswapMC.tla"), cfg, workers=2, expect_violation=True)
    bad = "is violated" in r["out"] or "was violated" in r["out"]
    log("selftest mutated Impl (oversized head kept) -> %s" % ("violated (as it must)" if bad else "NOT violated"))
    ok &= bad
    log("SELFTEST %s" % ("ok" if ok else "FAILED"))
    return 0 if ok else 2


def replay(ctx, path):
    """Re-execute a replay file against the real code and validate what it does now."""
    obj = json.load(open(path))
    cargo_build(ctx, ["bitswap"])
    args = ["--seed", obj.get("seed", 1), "--out", ctx.path("r.ndjson")]
    if obj["kind"] == "certmsg":
        msgs, _ = tlc_generate(ctx, "BitswapMsgMC.tla", write_cfg(
            ctx, "mgen.cfg", {"MaxBlocks": len(obj["kinds"]), "ZipByPosition": False}, GEN_LINES))
        m = [x for x in msgs if x["kinds"] == obj["kinds"]][0]
        m["bi"] = obj["bi"]
        write_jsonl(ctx.path("m.jsonl"), [m])
        args += ["--messages", ctx.path("m.jsonl"), "--per-msg", 12]
    elif obj["kind"] == "cert":
        write_jsonl(ctx.path("c.jsonl"), [{"c": obj["class"], "ci": obj["ci"]}])
        args += ["--classes", ctx.path("c.jsonl"), "--per-class", 40]
    else:
        sizes = obj.get("sizes")
        if sizes is None:
            sizes = [s for n, s in obj["sizes_rle"] for _ in range(n)]
        if obj["kind"] == "fn":
            write_jsonl(ctx.path("b.jsonl"), [{"sizes": sizes, "B": obj["B"]}])
            args += ["--behaviours", ctx.path("b.jsonl")]
        else:
            write_jsonl(ctx.path("e.jsonl"), [{"sizes": sizes, "presences": obj.get("presences", 0)}])
            args += ["--e2e-file", ctx.path("e.jsonl")]
    summ, _ = harness(ctx, "bitswap", args)
    lines = read_lines(ctx.path("r.ndjson"))
    _, _, rej = validate(ctx, lines, "prop", "r")
    for seg, idx in rej:
        log("replay: rejected [%s] %s" % (classify(seg, idx), what_of(seg, idx)[:500]))
    if not rej:
        log("replay: accepted (%d events)" % len(lines))
    return 1 if rej else 0
