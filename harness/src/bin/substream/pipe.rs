//! In-memory byte pipe (futures-io) carrying the yamux connection of the conformance harness.
//! Bounded capacity, bounded bytes per call (carrier fragmentation), waker based.
use futures::io::{AsyncRead, AsyncWrite};
use std::{
    cell::RefCell,
    collections::VecDeque,
    io,
    pin::Pin,
    rc::Rc,
    task::{Context, Poll, Waker},
};

pub struct Chan {
    buf: VecDeque<u8>,
    cap: usize,
    chunk: usize,
    rd_waker: Option<Waker>,
    wr_waker: Option<Waker>,
    closed: bool,
    pub moved: u64,
}

pub struct PipeEnd {
    rx: Rc<RefCell<Chan>>,
    tx: Rc<RefCell<Chan>>,
}

pub fn pair(cap: usize, chunk: usize) -> (PipeEnd, PipeEnd) {
    let mk = || Rc::new(RefCell::new(Chan { buf: VecDeque::new(), cap, chunk, rd_waker: None, wr_waker: None, closed: false, moved: 0 }));
    let (ab, ba) = (mk(), mk());
    (PipeEnd { rx: ba.clone(), tx: ab.clone() }, PipeEnd { rx: ab, tx: ba })
}

impl Drop for PipeEnd {
    fn drop(&mut self) {
        for c in [&self.rx, &self.tx] {
            let mut c = c.borrow_mut();
            c.closed = true;
            if let Some(w) = c.rd_waker.take() {
                w.wake();
            }
            if let Some(w) = c.wr_waker.take() {
                w.wake();
            }
        }
    }
}

impl AsyncRead for PipeEnd {
    fn poll_read(self: Pin<&mut Self>, cx: &mut Context<'_>, buf: &mut [u8]) -> Poll<io::Result<usize>> {
        let mut c = self.rx.borrow_mut();
        if c.buf.is_empty() {
            if c.closed {
                return Poll::Ready(Ok(0));
            }
            c.rd_waker = Some(cx.waker().clone());
            return Poll::Pending;
        }
        let k = buf.len().min(c.buf.len()).min(c.chunk);
        for slot in buf.iter_mut().take(k) {
            *slot = c.buf.pop_front().unwrap();
        }
        c.moved += k as u64;
        if let Some(w) = c.wr_waker.take() {
            w.wake();
        }
        Poll::Ready(Ok(k))
    }
}

impl AsyncWrite for PipeEnd {
    fn poll_write(self: Pin<&mut Self>, cx: &mut Context<'_>, buf: &[u8]) -> Poll<io::Result<usize>> {
        let mut c = self.tx.borrow_mut();
        if c.closed {
            return Poll::Ready(Err(io::ErrorKind::BrokenPipe.into()));
        }
        let room = c.cap.saturating_sub(c.buf.len());
        if room == 0 {
            c.wr_waker = Some(cx.waker().clone());
            return Poll::Pending;
        }
        let k = buf.len().min(room).min(c.chunk);
        c.buf.extend(&buf[..k]);
        if let Some(w) = c.rd_waker.take() {
            w.wake();
        }
        Poll::Ready(Ok(k))
    }
    fn poll_flush(self: Pin<&mut Self>, _cx: &mut Context<'_>) -> Poll<io::Result<()>> {
        Poll::Ready(Ok(()))
    }
    fn poll_close(self: Pin<&mut Self>, _cx: &mut Context<'_>) -> Poll<io::Result<()>> {
        let mut c = self.tx.borrow_mut();
        c.closed = true;
        if let Some(w) = c.rd_waker.take() {
            w.wake();
        }
        Poll::Ready(Ok(()))
    }
}
