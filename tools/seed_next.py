#!/usr/bin/env python3
"""Prepare the next seeded-change job for a property: the prompt lists every change already stored
under seeded/ for that property as 'already explored'.  usage: seed_next.py <new id> <prop> '<tests>'"""
import glob, json, os, subprocess, sys
HERE = os.path.dirname(os.path.abspath(__file__))
mid, pid, tests = sys.argv[1:4]
hint = sys.argv[4] if len(sys.argv) > 4 else ""
seen = []
for m in sorted(glob.glob(f"{HERE}/../seeded/{pid}*/meta.json")) + sorted(glob.glob(f"{HERE}/../seeded/_retired/{pid}*/meta.json")):
    d = json.load(open(m))
    seen.append(d["summary"][:300])
known = [l.split("sig=")[1].split(" ")[0] for l in open(f"{HERE}/../known_findings.txt") if l.startswith(f"finding: property={pid} ")]
extra = " and is different from these already explored ideas: " + "; ".join(seen) + "."
if known:
    extra += " It must also NOT be one of the known weaknesses of the pinned code (internal names: " + ", ".join(known) + ")."
extra += " Pick a clause of the statement or a code path that none of these touch" + ((": " + hint) if hint else "")
print(subprocess.check_output([sys.executable, f"{HERE}/seed_prompt.py", mid, pid, tests, extra]).decode().strip())
