------------------------------- MODULE Bitswap -------------------------------
(***************************************************************************)
(* Bitswap (litep2p src/protocol/libp2p/bitswap/mod.rs), property C20.    *)
(*                                                                         *)
(* Part 1 - response batching.  A response set is a sequence of blocks;   *)
(* a block is identified by its position (id = 1..n) and has a size.      *)
(*   Impl*: transcription of `extract_next_batch` and of the block loop   *)
(*          of `send_response`.                                           *)
(*   Prop*: what C20 demands of any implementation: no message written    *)
(*          to the substream exceeds the protocol limit M; every block    *)
(*          that fits (size <= B) is sent exactly once, in order; blocks  *)
(*          larger than B may be dropped (or sent) - nothing else is.     *)
(* Configuration record C = [B, M, O, W]:                                 *)
(*   B batch (payload) limit, M message limit, O encoding overhead per    *)
(*   block, W encoding overhead per message (model of the protobuf        *)
(*   framing; traces carry the measured message length instead).          *)
(*                                                                         *)
(* Part 2 - self-certification of inbound blocks as a decision table      *)
(* over abstract classes of (prefix, payload); see CertClasses.           *)
(***************************************************************************)
EXTENDS Naturals, Integers, Sequences, FiniteSets

-----------------------------------------------------------------------------
(* Part 1: batching                                                         *)

RECURSIVE SumSizes(_)
SumSizes(s) == IF s = <<>> THEN 0 ELSE Head(s).size + SumSizes(Tail(s))

Ids(s) == [i \in 1..Len(s) |-> s[i].id]
MsgLen(C, batch) == C.W + SumSizes(batch) + C.O * Len(batch)

\* ---- Impl: extract_next_batch(blocks, max_batch_size)
\* loop { front()?; if len > max { pop_front } else break }
RECURSIVE DropOversizedHead(_, _)
DropOversizedHead(q, B) ==
  IF q = <<>> THEN <<>>
  ELSE IF Head(q).size > B THEN DropOversizedHead(Tail(q), B) ELSE q

\* for b in blocks { if total + len > max { break }; total += len; count += 1 }
RECURSIVE CountFitting(_, _, _)
CountFitting(q, B, total) ==
  IF q = <<>> THEN 0
  ELSE IF total + Head(q).size > B THEN 0
  ELSE 1 + CountFitting(Tail(q), B, total + Head(q).size)

ImplExtract(q, B) ==
  LET q1 == DropOversizedHead(q, B) IN
  IF q1 = <<>> THEN [some |-> FALSE, batch |-> <<>>, rest |-> <<>>]
  ELSE LET n == CountFitting(q1, B, 0) IN
       [some |-> TRUE, batch |-> SubSeq(q1, 1, n), rest |-> SubSeq(q1, n + 1, Len(q1))]

\* ---- Impl: the block loop of send_response as a state machine step.
\* S = [q, out, skipped, done]; out/skipped are sequences of [ids, len]
SendInit(blocks) == [q |-> blocks, out |-> <<>>, skipped |-> <<>>, done |-> FALSE]

ImplSendStep(C, S) ==
  LET r == ImplExtract(S.q, C.B) IN
  IF ~r.some THEN [S EXCEPT !.q = <<>>, !.done = TRUE]
  ELSE LET m == [ids |-> Ids(r.batch), len |-> MsgLen(C, r.batch)] IN
       IF Len(r.batch) = 0 THEN [S EXCEPT !.q = r.rest]                \* blocks_message -> None
       ELSE IF m.len <= C.M THEN [S EXCEPT !.q = r.rest, !.out = Append(@, m)]
       ELSE [S EXCEPT !.q = r.rest, !.skipped = Append(@, m)]           \* warn!, message not sent

\* ---- Prop
Flatten(msgs) ==
  LET F[i \in 0..Len(msgs)] == IF i = 0 THEN <<>> ELSE F[i - 1] \o msgs[i].ids IN F[Len(msgs)]

StrictlyIncreasing(s) == \A i \in 1..(Len(s) - 1) : s[i] < s[i + 1]
InRange(s, n) == \A i \in 1..Len(s) : s[i] >= 1 /\ s[i] <= n
Mandatory(C, blocks) == {i \in 1..Len(blocks) : blocks[i].size <= C.B}

NoMessageOverLimit(C, out) == \A i \in 1..Len(out) : out[i].len <= C.M
\* each block at most once and in the order given (ids are positions)
InOrderAtMostOnce(blocks, out) ==
  LET s == Flatten(out) IN StrictlyIncreasing(s) /\ InRange(s, Len(blocks))
EveryFittingBlockSent(C, blocks, out) ==
  LET s == Flatten(out) IN \A i \in Mandatory(C, blocks) : \E j \in 1..Len(s) : s[j] = i

\* safety while sending, and the obligation once the response has been handled
PropSending(C, blocks, out) == NoMessageOverLimit(C, out) /\ InOrderAtMostOnce(blocks, out)
PropDone(C, blocks, out) == PropSending(C, blocks, out) /\ EveryFittingBlockSent(C, blocks, out)

\* known finding (tiny-blocks): a batch whose payload respects B but whose encoding
\* exceeds M is skipped as a whole; its blocks all fit a message on their own.
LostOnlyInSkipped(C, blocks, S) ==
  LET s == Flatten(S.out)  k == Flatten(S.skipped) IN
  \A i \in Mandatory(C, blocks) : (\E j \in 1..Len(s) : s[j] = i) \/ (\E j \in 1..Len(k) : k[j] = i)

\* ---- Prop for one call of extract_next_batch on queue q (of [id,size]) returning ret
\* (ret.batch / ret.rest are sequences of ids).  Nothing is lost except blocks larger
\* than B; order is kept; the call makes progress.
IsOrderedSubseqOfIds(ids, q) ==
  /\ \A i \in 1..Len(ids) : \E j \in 1..Len(q) : q[j].id = ids[i]
  /\ \A i \in 1..(Len(ids) - 1) :
       \E j, k \in 1..Len(q) : j < k /\ q[j].id = ids[i] /\ q[k].id = ids[i + 1]
PropExtract(B, q, ret) ==
  IF ~ret.some THEN \A j \in 1..Len(q) : q[j].size > B
  ELSE LET kept == ret.batch \o ret.rest IN
       /\ IsOrderedSubseqOfIds(kept, q)
       /\ \A j \in 1..Len(q) :
            (\A i \in 1..Len(kept) : kept[i] # q[j].id) => q[j].size > B
       /\ Len(ret.rest) < Len(q)

-----------------------------------------------------------------------------
(* Part 2: self-certification decision table                                *)
(* A class is a record                                                      *)
(*  pfx    shape of the prefix bytes: ok | empty | trunc1..trunc4 (cut      *)
(*         inside / before field k) | trailing | nonminimal | toolong (a    *)
(*         varint of more than 10 bytes) | overflow (a 10-byte varint whose *)
(*         tenth byte carries bits beyond 2^64; its low 64 bits spell the   *)
(*         value the other class fields describe)                           *)
(*  ver    CID version field: v0 | v1 | v2 | v3 | vbig                      *)
(*  codec  dagpb (0x70) | raw (0x55) | other                                *)
(*  hash   multihash code class, see Hashes                                 *)
(*  mhlen  true (digest size of the hash) | lying (other value <= 255) |    *)
(*         over255                                                          *)
(*  dlen   payload length class, payload intact | tampered (neither         *)
(*         influences the verdict; they drive the concretisation)           *)

CodetableHashes == {"sha2_256", "sha2_512", "sha3_224", "sha3_256", "sha3_384", "sha3_512",
                    "keccak_224", "keccak_256", "keccak_384", "keccak_512",
                    "blake2b_256", "blake2b_512"}
\* identity / sha1 are real hash functions this build does not compile in; `unassigned`
\* is a code no hash function is registered for.
Hashes == CodetableHashes \cup {"identity", "sha1", "unassigned"}
PfxShapes == {"ok", "empty", "trunc1", "trunc2", "trunc3", "trunc4", "trailing", "nonminimal", "toolong", "overflow"}
Versions == {"v0", "v1", "v2", "v3", "vbig"}
Codecs == {"dagpb", "raw", "other"}
MhLens == {"true", "lying", "over255"}
DLens == {"d0", "d1", "small", "d64", "d65", "large"}
Payloads == {"intact", "tampered"}

CertClasses ==
       [pfx : {"ok"}, ver : Versions, codec : Codecs, hash : Hashes, mhlen : MhLens,
        dlen : DLens, payload : Payloads]
  \cup [pfx : PfxShapes \ {"ok"}, ver : {"v0", "v1"}, codec : {"dagpb", "raw"},
        hash : {"sha2_256", "unassigned"}, mhlen : {"true"}, dlen : {"d0", "small"},
        payload : {"intact"}]

\* a CID can be formed from (version, codec, hash)
CidFormable(c) == c.ver = "v1" \/ (c.ver = "v0" /\ c.codec = "dagpb" /\ c.hash = "sha2_256")

\* Impl: transcription of Prefix::from_bytes + block_to_response.  The varint reader
\* (unsigned_varint::decode::u64) drops the bits a tenth byte carries beyond 2^64, so an
\* `overflow` prefix parses to the same fields as the `ok` prefix it was derived from.
ImplParses(c) == c.pfx \in {"ok", "overflow"} /\ c.ver \in {"v0", "v1"} /\ c.mhlen # "over255"
ImplVerdict(c) ==
  IF ImplParses(c) /\ c.hash \in CodetableHashes /\ CidFormable(c) THEN "deliver" ELSE "drop"

\* Prop: malformed prefixes, hash codes nobody can compute and combinations no CID
\* exists for must be dropped; a well-formed SHA2-256 block must be delivered; for the
\* rest (other hash functions, a declared digest length that contradicts the hash) the
\* statement leaves delivery open.  Whatever is delivered carries the recomputed CID.
PropVerdict(c) ==
  IF c.pfx # "ok" \/ c.ver \notin {"v0", "v1"} THEN "drop"
  ELSE IF c.hash = "unassigned" THEN "drop"
  ELSE IF ~CidFormable(c) THEN "drop"
  ELSE IF c.hash = "sha2_256" /\ c.mhlen = "true" THEN "deliver"
  ELSE "either"

Allowed(want, got) == want = "either" \/ want = got

\* recorded finding: an overflowing varint is accepted and the block delivered
KnownOverflowAccepted(c) == c.pfx = "overflow" /\ ImplVerdict(c) = "deliver"

\* one observed handling of a block of class c: verdict in {deliver, drop, panic};
\* cidOk: reported CID equals the independent recomputation from the received bytes;
\* dataOk: reported bytes equal the received bytes
PropCert(c, verdict, cidOk, dataOk) ==
  /\ verdict \in {"deliver", "drop"}
  /\ Allowed(PropVerdict(c), verdict)
  /\ verdict = "deliver" => cidOk /\ dataOk
ImplCert(c, verdict, cidOk, dataOk) ==
  /\ verdict = ImplVerdict(c)
  /\ verdict = "deliver" => cidOk /\ dataOk
-----------------------------------------------------------------------------
(* Part 3: certification is per message.  An inbound message carries a       *)
(* sequence of blocks; each block is of one verdict kind of the decision     *)
(* table above (only the kinds the property pins down):                      *)
MsgBlockKinds == {"deliver_v1", "deliver_v0", "drop_malformed", "drop_unsupported", "drop_badversion", "drop_v0_codec"}
Deliverable(k) == k \in {"deliver_v1", "deliver_v0"}
\* representative class of the decision table for a kind (the concretisation varies the rest)
KindClass(k) ==
  CASE k = "deliver_v1"       -> [pfx |-> "ok", ver |-> "v1", codec |-> "raw", hash |-> "sha2_256", mhlen |-> "true"]
    [] k = "deliver_v0"       -> [pfx |-> "ok", ver |-> "v0", codec |-> "dagpb", hash |-> "sha2_256", mhlen |-> "true"]
    [] k = "drop_malformed"   -> [pfx |-> "trailing", ver |-> "v1", codec |-> "raw", hash |-> "sha2_256", mhlen |-> "true"]
    [] k = "drop_unsupported" -> [pfx |-> "ok", ver |-> "v1", codec |-> "raw", hash |-> "unassigned", mhlen |-> "true"]
    [] k = "drop_badversion"  -> [pfx |-> "ok", ver |-> "v2", codec |-> "raw", hash |-> "sha2_256", mhlen |-> "true"]
    [] k = "drop_v0_codec"    -> [pfx |-> "ok", ver |-> "v0", codec |-> "raw", hash |-> "sha2_256", mhlen |-> "true"]
KindsConsistent == \A k \in MsgBlockKinds : PropVerdict(KindClass(k)) = (IF Deliverable(k) THEN "deliver" ELSE "drop")

\* A delivery is [d, c]: d = position of the block whose bytes were delivered, c = position
\* of the block whose (prefix, bytes) the reported CID was computed from.
DeliverableIdx(kinds) == SelectSeq([i \in 1..Len(kinds) |-> i], LAMBDA i : Deliverable(kinds[i]))
\* Impl: the per-block loop of on_message_received (verify, then push the pair)
ImplMsgDeliver(kinds) == [j \in 1..Len(DeliverableIdx(kinds)) |-> [d |-> DeliverableIdx(kinds)[j], c |-> DeliverableIdx(kinds)[j]]]
\* negative model: collect the CIDs of the verified blocks first, then pair them with the
\* payload blocks by position
ZipMsgDeliver(kinds) == [j \in 1..Len(DeliverableIdx(kinds)) |-> [d |-> j, c |-> DeliverableIdx(kinds)[j]]]
\* Prop: the user receives exactly the deliverable blocks, in order, each under the CID
\* recomputed from its own bytes
PropMsg(kinds, delivered) ==
  LET want == DeliverableIdx(kinds) IN
  /\ Len(delivered) = Len(want)
  /\ \A j \in 1..Len(want) : delivered[j].d = want[j] /\ delivered[j].c = delivered[j].d
=============================================================================
