---------------------------- MODULE PeerIdRulesMC ----------------------------
(* Enumeration of the whole abstract input space of PeerIdRules (C18): one   *)
(* obligation per class with the verdict of the transcription, plus the      *)
(* internal consistency of the tables.                                       *)
EXTENDS PeerIdRules, TLC, Json

\* FALSE: the documented rule; TRUE: the negative model (first /p2p component)
CONSTANT FirstP2p
\* FALSE: AddressRecord::new appends unless the address ends with /p2p; TRUE: negative model
\* (appends only if no /p2p component occurs anywhere)
CONSTANT AppendIfNone

VARIABLES phase, cls
vars == <<phase, cls>>

Init == phase = "init" /\ cls = [code |-> "none"]
Next == /\ phase = "init"
        /\ \/ phase' = "derive" /\ cls' \in DeriveClasses
           \/ phase' = "parse" /\ cls' \in ParseClasses
           \/ phase' = "maddr" /\ cls' \in MaddrClasses
Spec == Init /\ [][Next]_vars

\* the canonical encoding of every derived id is accepted by the parser (the 42-byte
\* boundary is the same on both sides), through every entry point
DerivedIdParses ==
  phase = "derive" =>
    \A d \in DerivedDLen(cls) : \A via \in Vias :
      ImplVerdict([code |-> Derive(cls), dlen |-> d, decl |-> "eq", vform |-> "minimal", text |-> "valid"], via) = "accept"
\* text acceptance implies byte acceptance; damaged framing is never accepted
TableConsistent ==
  phase = "parse" =>
    /\ (ImplParsesText(cls) => ImplParsesBytes(cls))
    /\ (cls.decl # "eq" \/ cls.vform \in {"nonminimal", "toolong"} => ~ImplParsesBytes(cls))
    /\ (cls.code \in {"otherknown", "unassigned"} => ~ImplParsesBytes(cls))

\* the table over the classes is the last-component rule on the address layout
MaddrRule ==
  phase = "maddr" =>
    ExpectedMaddr(cls) = (IF FirstP2p THEN FirstComponentRule(MaddrLayout(cls)) ELSE LastComponentRule(MaddrLayout(cls)))

RecordNewRule ==
  phase = "maddr" =>
    ExpectedRecordNew(cls) = (IF AppendIfNone THEN RecordNewAnyRule(MaddrLayout(cls)) ELSE RecordNewLastRule(MaddrLayout(cls)))

Emit == PrintT(<<"B", ToJson(
          IF phase' = "maddr"
            THEN [kind |-> "maddr", c |-> cls', exp |-> ExpectedMaddr(cls'), layout |-> MaddrLayout(cls')]
          ELSE IF phase' = "derive"
            THEN [kind |-> "derive", c |-> cls', exp |-> Derive(cls')]
            ELSE [kind |-> "parse", c |-> cls',
                  exp |-> [v \in Vias |-> ImplVerdict(cls', v)]])>>)
=============================================================================
