import sys, os, json, random
sys.path.insert(0, "/verif/tools")
import vlib, c07
ctx = vlib.Ctx("C07dev", "thorough", 1)
rnd = random.Random(5)
scs = []
qs, = [{"op": "quiesce"}],
for i in range(600):
    frm = "AB"[i % 2]
    if i % 3 == 0:
        steps = [{"op": "connect", "from": frm, "kill_on_est": "B"}, {"op": "quiesce"}, {"op": "redial", "n": "A"}]
        name = "kill-on-est"
    else:
        n = rnd.randrange(690, 712)
        steps = [{"op": "connect", "from": frm, "cut_at": n}, {"op": "cut"}, {"op": "quiesce"}, {"op": "redial", "n": "A"}, {"op": "cut"}, {"op": "quiesce"}]
        name = "cut-at-%d" % n
    scs.append({"name": name, "seed": rnd.randrange(1 << 30), "A": {"perturb": 3}, "B": {"perturb": i % 2}, "steps": steps})
summ, lines = c07.run_net(ctx, scs)
print({k: summ[k] for k in summ if k != "event_kinds"})
nseg, nev, rej = vlib.validate_all(ctx, "ConnLifeNetTrace.tla", "ConnLifeNetTrace.cfg", lines)
print(nseg, nev, [(json.loads(r[0][0])["sc"], r.reason) for r in rej])
# how short-lived were the connections at A: est followed by closed
short = 0; estA = 0
for seg in vlib.split_segments(lines, lambda ln: '"e":"reset"' in ln):
    evs = [json.loads(x) for x in seg]
    for i, e in enumerate(evs):
        if e["e"] == "app_est" and e.get("n") == "A":
            estA += 1
            nxt = [x for x in evs[i+1:] if x.get("n") == "A" and x["e"] == "app_closed" and x["cid"] == e["cid"]]
            if nxt and nxt[0]["t"] - e["t"] <= 2: short += 1
print("A established", estA, "closed within 2 ms of established", short)
ctx.cleanup()
