------------------------ MODULE TransportIfaceTrace ------------------------
(* Trace validation of executions of the real TcpTransport (harness bin      *)
(* tcplegal: real loopback sockets, remote endpoints the harness controls).  *)
(*  MODE=prop : every recorded call / event / quiescence point is fed to the *)
(*              interface monitor of TransportIface.tla; at quiescence the   *)
(*              recorded bookkeeping projection must satisfy the leak rules. *)
(*              A broken rule is printed as <<"BAD", line, rule>>, the ids   *)
(*              involved are suspended, validation continues.                *)
(*  MODE=impl : additionally the bookkeeping projection recorded with every  *)
(*              line must be the function of the interface state that        *)
(*              TcpTransportMC maintains (BookkeepingExact); a mismatch      *)
(*              rejects the line (reported as model drift, never a verdict). *)
EXTENDS TransportIface, Json, IOUtils

Rec == ndJsonDeserialize(IOEnv.TRACE)
Mode == IOEnv.MODE

VARIABLES l, mon
tvars == <<l, mon>>

TInit == l = 1 /\ mon = MonInit

Step(r) ==
  CASE r.e = "reset" -> MonInit
    [] r.e = "call" -> MonCall(mon, r)
    [] r.e = "ev" -> MonEvent(mon, r)
    [] r.e = "connect" -> MonConnect(mon)
    [] r.e = "quiesce" -> MonQuiesce(mon, r.bk)

TNext ==
  /\ l <= Len(Rec)
  /\ l' = l + 1
  /\ LET r == Rec[l] m == Step(r) IN
     /\ mon' = Forgive(m)
     /\ IF Mode = "impl"
          THEN (m.bad = "" /\ "bk" \in DOMAIN r /\ IdsIn(m, {"x"}) = {}) => BkExact(m, r.bk)
          ELSE m.bad # "" => PrintT(<<"BAD", l, m.bad>>)

TSpec == TInit /\ [][TNext]_tvars

Accepted ==
  LET d == TLCGet("stats").diameter IN
  IF d - 1 = Len(Rec) THEN PrintT(<<"TRACE_OK", Len(Rec)>>)
  ELSE PrintT(<<"TRACE_REJECTED_AT", d>>) /\ FALSE
=============================================================================
