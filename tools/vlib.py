"""Shared orchestration for the litep2p TLA+ verification checks.

Pipeline pieces: TLC model checking, TLC behaviour generation, harness build/run,
TLC trace validation with isolation of rejected segments, known-findings
classification, evidence writing.  Exit codes: 0 held, 1 violation (with a
VIOLATION line + replay file), 2 tool error.
"""
import json
import os
import re
import shutil
import subprocess
import sys
import time

VERIF = os.path.dirname(os.path.dirname(os.path.abspath(__file__)))
SPEC = os.path.join(VERIF, "spec")
# VERIF_HARNESS lets tools/mutant.sh point the checks at a scratch copy of the harness crate whose path
# dependency is a scratch copy of /repo (seeded-change experiments); registered commands never set it.
HARNESS = os.environ.get("VERIF_HARNESS") or os.path.join(VERIF, "harness")
EVID = os.path.join(VERIF, "evidence")
KNOWN = os.path.join(VERIF, "known_findings.txt")
REPLAYS = os.path.join(VERIF, "replays")
TLC_JAR = "/opt/veriftools/tla/tla2tools.jar"


class ToolError(Exception):
    pass


def log(*a):
    print(*a, flush=True)


class Ctx:
    """Per-run context: property id, tier, seed, scratch dir, timers."""

    def __init__(self, pid, tier, seed):
        self.pid, self.tier, self.seed = pid, tier, seed
        self.t0 = time.time()
        self.work = os.path.join(VERIF, ".work", "%s.%d" % (pid, os.getpid()))
        shutil.rmtree(self.work, ignore_errors=True)
        os.makedirs(self.work)
        self.md = 0
        self.notes = []

    def path(self, name):
        return os.path.join(self.work, name)

    def metadir(self):
        import threading
        if not hasattr(self, "_lock"):
            self._lock = threading.Lock()
        with self._lock:
            self.md += 1
            return os.path.join(self.work, "md%d" % self.md)

    def cleanup(self):
        shutil.rmtree(self.work, ignore_errors=True)

    def quick(self):
        return self.tier == "quick"


def run(cmd, env=None, timeout=None, cwd=None):
    e = dict(os.environ)
    if env:
        e.update(env)
    try:
        p = subprocess.run(cmd, env=e, cwd=cwd, timeout=timeout, stdout=subprocess.PIPE,
                           stderr=subprocess.STDOUT, text=True, errors="replace")
    except subprocess.TimeoutExpired as ex:
        out = ex.stdout if isinstance(ex.stdout, str) else (ex.stdout or b"").decode(errors="replace")
        raise ToolError("timeout after %ss: %s\n%s" % (timeout, " ".join(cmd[:6]), out[-2000:]))
    return p.returncode, p.stdout


# --------------------------------------------------------------------------- TLC

def _tlc_cmd(ctx, spec, cfg, workers, extra=()):
    cfgp = cfg if os.path.isabs(cfg) else os.path.join(SPEC, cfg)
    return ["tlc", "-workers", str(workers), "-metadir", ctx.metadir(), "-cleanup",
            "-noGenerateSpecTE", *extra, "-config", cfgp, os.path.join(SPEC, spec)]


def write_cfg(ctx, name, consts, lines):
    """Write a TLC config into the scratch dir. consts: dict name -> TLA text (use '<- Def'
    for substitutions), lines: other config lines."""
    p = ctx.path(name)
    with open(p, "w") as f:
        f.write("CONSTANTS\n")
        for k, v in consts.items():
            if isinstance(v, str) and v.startswith("<-"):
                f.write("  %s %s\n" % (k, v))
            else:
                f.write("  %s = %s\n" % (k, tla(v)))
        for ln in lines:
            f.write(ln + "\n")
    return p


def tla(v):
    """Python value -> TLA+ config literal (sets as Python set/frozenset/list of scalars)."""
    if isinstance(v, bool):
        return "TRUE" if v else "FALSE"
    if isinstance(v, int):
        return str(v)
    if isinstance(v, str):
        return '"%s"' % v
    if isinstance(v, (set, frozenset, list, tuple)):
        return "{" + ", ".join(tla(x) for x in sorted(v, key=str)) + "}"
    raise ValueError(v)


_RE_STATES = re.compile(r"(\d+) states generated, (\d+) distinct states found")
_RE_DEPTH = re.compile(r"depth of the complete state graph search is (\d+)")


def tlc_mc(ctx, spec, cfg, workers=12, timeout=900, expect_violation=False, coverage=False):
    """Exhaustive TLC run. Returns dict(states, distinct, depth, ok, out)."""
    extra = ["-coverage", "1"] if coverage else []
    t = time.time()
    rc, out = run(_tlc_cmd(ctx, spec, cfg, workers, extra), timeout=timeout, cwd=ctx.work,
                  env={"JAVA_TOOL_OPTIONS": "-Xss512m"})
    if not expect_violation and "Model checking completed. No error has been found." not in out:
        # exhaustive breadth-first search of a deterministic model: a real violation reproduces on every
        # run.  Under heavy machine load multi-worker TLC twice produced a non-reproducible failure (an
        # invariant "violated" in an *initial* state that satisfies it, with one spurious extra distinct
        # state; and "RuntimeException: Field name a occurs multiple times in record" - unsynchronised
        # normalisation of a value shared between workers), so a failure is confirmed by a second run
        # before it is believed.
        rc2, out2 = run(_tlc_cmd(ctx, spec, cfg, workers, extra), timeout=timeout, cwd=ctx.work,
                        env={"JAVA_TOOL_OPTIONS": "-Xss512m"})
        if "Model checking completed. No error has been found." in out2:
            ctx.notes.append("TLC reported a failure for %s/%s that did not reproduce on the re-run (tool glitch, "
                             "first output kept in %s)" % (spec, os.path.basename(cfg), ctx.path("tlc_glitch.out")))
            open(ctx.path("tlc_glitch.out"), "w").write(out)
        out = out2
    m = _RE_STATES.findall(out)
    res = {"spec": spec, "cfg": cfg, "wall_s": round(time.time() - t, 1), "out": out}
    if m:
        res["transitions"], res["distinct"] = int(m[-1][0]), int(m[-1][1])
    d = _RE_DEPTH.findall(out)
    if d:
        res["depth"] = int(d[-1])
    ok = "Model checking completed. No error has been found." in out
    res["ok"] = ok
    if not ok and not expect_violation:
        if "is violated" in out or "Error:" in out:
            res["error"] = out[-3000:]
    if not m and not expect_violation:
        raise ToolError("TLC produced no state counts for %s/%s:\n%s" % (spec, cfg, out[-3000:]))
    return res


def tlc_generate(ctx, spec, cfg, timeout=900, simulate=None, limit=None):
    """Run TLC with an emitting ACTION_CONSTRAINT (or -simulate) and collect the JSON
    behaviours printed as <<"B", "<json>">>.  Returns (list of parsed JSON, stats)."""
    extra = []
    if simulate:
        extra = ["-simulate", "num=%d" % simulate["num"], "-depth", str(simulate["depth"]),
                 "-seed", str(ctx.seed)]
    t = time.time()
    rc, out = run(_tlc_cmd(ctx, spec, cfg, 1, extra), timeout=timeout, cwd=ctx.work,
                  env={"JAVA_TOOL_OPTIONS": "-Xss512m"})
    behs, seen = [], set()
    for line in out.splitlines():
        if line.startswith('<<"B", "') and line.endswith('">>'):
            raw = line[len('<<"B", "'):-len('">>')]
            if raw in seen:
                continue
            seen.add(raw)
            txt = raw.replace('\\"', '"').replace("\\\\", "\\")
            behs.append(json.loads(txt))
            if limit and len(behs) >= limit:
                break
    m = _RE_STATES.findall(out)
    if not behs:
        raise ToolError("TLC generated no behaviours for %s/%s:\n%s" % (spec, cfg, out[-3000:]))
    stats = {"spec": spec, "cfg": cfg, "behaviours": len(behs), "wall_s": round(time.time() - t, 1)}
    if m:
        stats["transitions"], stats["distinct"] = int(m[-1][0]), int(m[-1][1])
    return behs, stats


_RE_REJ = re.compile(r'<<"TRACE_REJECTED_AT", (\d+)>>')
_RE_BAD = re.compile(r'<<\s*"BAD",\s*(\d+),\s*"([^"]*)"\s*>>', re.S)


def apalache_inductive(ctx, spec, cinit, inv="IndInv", init="Init", indinit="IndInit", timeout=900):
    """Inductive-invariant check with Apalache: base case (init => inv, length 0) and step
    (indinit /\\ Next => inv', length 1).  Returns dict(status=proved|timeout|unavailable, ...).
    A counterexample on the committed spec is a defect of the specification work (ToolError), never a
    verdict about the code: the code is bound to the spec by the refinement and conformance runs."""
    if not shutil.which("apalache-mc"):
        return {"status": "unavailable"}
    res = {"spec": spec, "cinit": cinit, "inv": inv}
    t = time.time()
    for name, args in (("base", ["--init=" + init, "--length=0"]), ("step", ["--init=" + indinit, "--length=1"])):
        od = ctx.path("apalache_%s_%s" % (cinit, name))
        cmd = ["apalache-mc", "check", "--cinit=" + cinit, "--inv=" + inv, "--out-dir=" + od, *args, os.path.join(SPEC, spec)]
        try:
            rc, out = run(cmd, timeout=timeout, cwd=ctx.work)
        except ToolError:
            res["status"] = "timeout"
            res["wall_s"] = round(time.time() - t, 1)
            return res
        if "The outcome is: NoError" not in out:
            raise ToolError("Apalache did not discharge the %s case of %s for %s/%s:\n%s" % (name, inv, spec, cinit, out[-3000:]))
    res["status"] = "proved"
    res["wall_s"] = round(time.time() - t, 1)
    return res


class Rej(tuple):
    """(segment_lines, index_in_segment) plus .reason (monitor rule that failed, if reported)."""
    def __new__(cls, seg, idx, reason=""):
        o = super().__new__(cls, (seg, idx))
        o.reason = reason
        return o

_RE_OK = re.compile(r'<<"TRACE_OK", (\d+)>>')


def tlc_trace(ctx, spec, cfg, trace_path, mode="prop", timeout=900, env=None):
    """Validate one NDJSON trace. Returns None if accepted, else the 1-based index of the
    first line that could not be explained."""
    e = {"TRACE": trace_path, "MODE": mode,
         "JAVA_TOOL_OPTIONS": "-Xss1g -Xmx6g -Dtlc2.tool.queue.IStateQueue=StateDeque"}
    if env:
        e.update(env)
    rc, out = run(_tlc_cmd(ctx, spec, cfg, 1), env=e, timeout=timeout, cwd=ctx.work)
    ctx.last_reason = ""
    b = _RE_BAD.search(out)
    if b:
        # the monitor consumed line b and flagged it: that line is the offending one
        ctx.last_reason = b.group(2)
        return int(b.group(1))
    if _RE_OK.search(out):
        return None
    m = _RE_REJ.search(out)
    if m:
        # diameter d = consumed lines + 1  => first unexplained line is d (1-based)
        return int(m.group(1))
    raise ToolError("trace validation of %s with %s failed to run:\n%s" % (trace_path, spec, out[-3000:]))


def tlc_trace_all(ctx, spec, cfg, trace_path, mode="prop", timeout=1800, env=None):
    """Validate a trace whose spec keeps going after a broken rule and prints <<"BAD", line, reason>>
    for the first broken rule of every execution. Returns (bads, rejected_at) where bads is a list
    of (line, reason) and rejected_at is None or the first line that could not be consumed at all."""
    e = {"TRACE": trace_path, "MODE": mode,
         "JAVA_TOOL_OPTIONS": "-Xss1g -Xmx8g -Dtlc2.tool.queue.IStateQueue=StateDeque"}
    if env:
        e.update(env)
    rc, out = run(_tlc_cmd(ctx, spec, cfg, 1), env=e, timeout=timeout, cwd=ctx.work)
    bads = [(int(a), b) for a, b in _RE_BAD.findall(out)]
    if _RE_OK.search(out):
        return bads, None
    m = _RE_REJ.search(out)
    if m:
        return bads, int(m.group(1))
    raise ToolError("trace validation of %s with %s failed to run:\n%s" % (trace_path, spec, out[-3000:]))


def validate_all(ctx, spec, cfg, lines, mode="prop", tag="a", chunk_lines=150000, env=None,
                 is_reset=lambda ln: '"e":"reset"' in ln, jobs=4):
    """One-pass validation for monitor-style trace specs (see tlc_trace_all). Chunks of about
    `chunk_lines` lines are validated by up to `jobs` TLC processes in parallel. Returns
    (n_segments, n_events, rejects) with rejects = [Rej(segment, idx, reason)]; a line that cannot be
    consumed at all (malformed trace / impl-mode mismatch) is reported with reason 'unconsumed'."""
    import bisect
    from concurrent.futures import ThreadPoolExecutor
    allsegs = split_segments(lines, is_reset)
    nseg, nev = len(allsegs), len(lines) - len(allsegs)
    chunks, cur, n = [], [], 0
    for s in allsegs:
        cur.append(s)
        n += len(s)
        if n >= chunk_lines:
            chunks.append(cur)
            cur, n = [], 0
    if cur:
        chunks.append(cur)

    def one(arg):
        ci, segs = arg
        out, rnd = [], 0
        while segs:
            rnd += 1
            p = ctx.path("%s.%s.%d.%d.ndjson" % (tag, mode, ci, rnd))
            with open(p, "w") as f:
                for s in segs:
                    f.write("\n".join(s) + "\n")
            bads, rej = tlc_trace_all(ctx, spec, cfg, p, mode=mode, env=env)
            os.remove(p)
            starts, acc = [], 0
            for s in segs:
                starts.append(acc)
                acc += len(s)
            for ln, reason in bads:
                i = bisect.bisect_right(starts, ln - 1) - 1
                out.append(Rej(segs[i], ln - starts[i], reason))
            if rej is None:
                break
            i = bisect.bisect_right(starts, rej - 1) - 1
            out.append(Rej(segs[i], rej - starts[i], "unconsumed"))
            segs = segs[i + 1:]
            if len(out) > 5000:
                break
        return out

    rejects = []
    with ThreadPoolExecutor(max_workers=max(1, min(jobs, len(chunks) or 1))) as ex:
        for r in ex.map(one, list(enumerate(chunks))):
            rejects.extend(r)
    return nseg, nev, rejects


def split_segments(lines, is_reset):
    """Split trace lines into segments, each starting at a reset line."""
    segs, cur = [], []
    for ln in lines:
        if is_reset(ln) and cur:
            segs.append(cur)
            cur = []
        cur.append(ln)
    if cur:
        segs.append(cur)
    return segs


def validate_segments(ctx, spec, cfg, lines, mode="prop", max_rejects=8, tag="t", env=None,
                      is_reset=lambda ln: '"e":"reset"' in ln, chunk_lines=150000):
    """Validate a multi-segment trace; a rejected segment is set aside and validation
    continues with the rest, so every segment gets checked.  Large traces are validated in
    chunks of about `chunk_lines` lines (one JVM each).  Returns
    (n_segments, n_events, rejects) with rejects = [Rej(segment_lines, offending_index_in_segment)]."""
    allsegs = split_segments(lines, is_reset)
    nseg, nev = len(allsegs), len(lines) - len(allsegs)
    rejects = []
    rnd = 0
    # chunking
    chunks, cur, n = [], [], 0
    for s in allsegs:
        cur.append(s)
        n += len(s)
        if n >= chunk_lines:
            chunks.append(cur)
            cur, n = [], 0
    if cur:
        chunks.append(cur)
    for segs in chunks:
        while segs:
            rnd += 1
            p = ctx.path("%s.%s.%d.ndjson" % (tag, mode, rnd))
            with open(p, "w") as f:
                for s in segs:
                    f.write("\n".join(s) + "\n")
            bad = tlc_trace(ctx, spec, cfg, p, mode=mode, env=env)
            os.remove(p)
            if bad is None:
                break
            acc = 0
            for i, s in enumerate(segs):
                if acc + len(s) >= bad:
                    rejects.append(Rej(s, bad - acc, getattr(ctx, 'last_reason', '')))
                    segs = segs[i + 1:]   # everything before was accepted
                    break
                acc += len(s)
            else:
                raise ToolError("rejected line %d beyond trace" % bad)
            if len(rejects) >= max_rejects:
                ctx.notes.append("stopped after %d rejected segments" % max_rejects)
                return nseg, nev, rejects
    return nseg, nev, rejects


# --------------------------------------------------------------------------- harness

def cargo_build(ctx, bins, timeout=1800):
    cmd = ["cargo", "build", "--offline"]
    for b in bins:
        cmd += ["--bin", b]
    t = time.time()
    rc, out = run(cmd, cwd=HARNESS, timeout=timeout, env={"CARGO_NET_OFFLINE": "true"})
    if rc != 0:
        raise ToolError("harness build failed:\n" + out[-4000:])
    return round(time.time() - t, 1)


def harness(ctx, binname, args, timeout=1800, env=None):
    cmd = [os.path.join(HARNESS, "target", "debug", binname)] + [str(a) for a in args]
    rc, out = run(cmd, timeout=timeout, cwd=ctx.work, env=env)
    summ = None
    for line in out.splitlines():
        if line.startswith("SUMMARY "):
            summ = json.loads(line[len("SUMMARY "):])
    if rc != 0 or summ is None:
        raise ToolError("harness %s failed rc=%s:\n%s" % (binname, rc, out[-4000:]))
    return summ, out


def read_lines(path):
    with open(path) as f:
        return [ln.rstrip("\n") for ln in f if ln.strip()]


def write_jsonl(path, items):
    with open(path, "w") as f:
        for it in items:
            f.write(json.dumps(it, separators=(",", ":")) + "\n")


# --------------------------------------------------------------------------- findings / verdict

def load_known(pid):
    """known_findings.txt lines: `finding: property=<id> sig=<sig> <text>` or
    `fixed: property=<id> <commit> <text>`.  Only `finding:` lines suppress."""
    sigs = {}
    if os.path.exists(KNOWN):
        for ln in open(KNOWN):
            ln = ln.strip()
            m = re.match(r"finding:\s+property=(\S+)\s+sig=(\S+)\s+(.*)", ln)
            if m and m.group(1) == pid:
                sigs[m.group(2)] = m.group(3)
    return sigs


def save_replay(ctx, name, obj):
    os.makedirs(REPLAYS, exist_ok=True)
    p = os.path.join(REPLAYS, "%s_%s.json" % (ctx.pid, name))
    with open(p, "w") as f:
        json.dump(obj, f, indent=1)
    return p


def conclude(ctx, level, coverage, violations, assumptions, extra=None):
    """violations: list of dict(sig=..., what=..., replay_obj=...).  Known signatures are
    printed as KNOWN-FINDING, anything else is a VIOLATION.  Writes evidence, returns exit code."""
    known = load_known(ctx.pid)
    new, seen_known, counts = {}, {}, {}
    for v in violations:
        sig = v.get("sig", "v")
        counts[sig] = counts.get(sig, 0) + 1
        if sig in known:
            seen_known.setdefault(sig, v)
        else:
            new.setdefault(sig, v)
    for sig, v in seen_known.items():
        log("KNOWN-FINDING: property=%s sig=%s (%d executions) %s" % (ctx.pid, sig, counts[sig], known[sig]))
    for i, (sig, v) in enumerate(list(new.items())[:20]):
        p = save_replay(ctx, "%s" % re.sub(r"[^A-Za-z0-9_.+-]", "_", sig)[:80], v.get("replay_obj", v))
        log("VIOLATION property=%s replay=%s" % (ctx.pid, p))
        log("  signature: %s (%d executions)" % (sig, counts[sig]))
        log("  what: %s" % v.get("what", ""))
    new = list(new.values())
    ev = {
        "property_id": ctx.pid,
        "tier": ctx.tier,
        "seed": ctx.seed,
        "level": level,
        "coverage": coverage,
        "assumptions": assumptions,
        "wall_s": round(time.time() - ctx.t0, 1),
        "violations": len(new),
    }
    if ctx.notes:
        ev["coverage"]["notes"] = ctx.notes
    if seen_known:
        ev["coverage"]["known_findings_seen"] = sorted(seen_known)
    if extra:
        ev.update(extra)
    # evidence/ holds exactly one file per listed property; supporting checks write next to it
    evdir = EVID if re.fullmatch(r"C\d\d", ctx.pid) else EVID + "_support"
    os.makedirs(evdir, exist_ok=True)
    with open(os.path.join(evdir, "%s.json" % ctx.pid), "w") as f:
        json.dump(ev, f, indent=1)
    log("RESULT property=%s tier=%s violations=%d known=%d wall=%.0fs" %
        (ctx.pid, ctx.tier, len(new), len(seen_known), time.time() - ctx.t0))
    return 1 if new else 0


def seg_brief(seg, idx, maxlines=40):
    """Readable excerpt of a rejected segment: header, up to the offending line."""
    out = []
    for i, ln in enumerate(seg[:idx], 1):
        if i == 1 or i > idx - maxlines:
            out.append(json.loads(ln))
    return out
