---------------------------- MODULE SubstreamPipe ----------------------------
(***************************************************************************)
(* C04, Impl layer: litep2p's `substream::Substream` (src/substream/mod.rs)*)
(* on both ends of a yamux stream.                                         *)
(*                                                                         *)
(* Sender: `Sink::{poll_ready,start_send,poll_flush}` with                 *)
(* pending_out_frames (q), pending_out_frame (cur), pending_out_bytes      *)
(* (pob, backpressure boundary B), and `send_framed` (write_all + flush).  *)
(* Carrier: the yamux stream seen from `poll_write` / `poll_flush`:        *)
(*   - a write is Pending when the stream's command channel is full        *)
(*     ("busy": modelled by a per-poll quota of writes) and then the flush *)
(*     is Pending too;                                                     *)
(*   - a write is Pending when the send window (credit, at most W) is 0,   *)
(*     but the flush is Ready then;                                        *)
(*   - otherwise min(credit, len) bytes are accepted.                      *)
(*   Bytes read by the receiver return their credit.                       *)
(* Receiver: `Stream::poll_next` per codec (size_vec / offset /            *)
(* current_frame_size, initial read buffer of RBuf bytes).                 *)
(* Sizes are abstract units; a length prefix is one unit.                  *)
(* One action = one poll of the sender's current call (Op / Ps), one poll  *)
(* of the receiver allowed k messages (Pr), or carrier + receiver running  *)
(* to quiescence without the sender (Settle).                              *)
(* Fixed = TRUE is the code after the fix commits 4ba5020 (read buffer     *)
(* grown for Identity(n > RBuf)) and 781835c (poll_flush Pending while a   *)
(* frame is withheld) and is what the check verifies (StrictOK).           *)
(* Fixed = FALSE is the earlier defective behaviour, kept as a negative    *)
(* model for the self-test; its defective steps set a tag in kf.           *)
(***************************************************************************)
EXTENDS FramedPipe, FiniteSets, TLC

CONSTANTS W, B, RBuf, Fixed, Record,
          Quotas,      \* possible numbers of writes the command channel takes in one poll (0 = full)
          Mut          \* "none" | "framedearly" | "nosizecheck" | "droplast"  (self-test mutants)

VARIABLES cfg, prog, pc, op, snd, credit, wire, rcv, mon, evs, kf, hist
vars == <<cfg, prog, pc, op, snd, credit, wire, rcv, mon, evs, kf, hist>>

Min2(a, b) == IF a < b THEN a ELSE b
Monus(a, b) == IF a > b THEN a - b ELSE 0
NoOp == [api |-> "none", len |-> 0, m |-> 0, stage |-> "", left |-> 0]

Frames(len, m) ==
  IF cfg.codec = "id" THEN <<[pfx |-> FALSE, len |-> len, left |-> len, m |-> m]>>
  ELSE <<[pfx |-> TRUE, len |-> len, left |-> 1, m |-> m], [pfx |-> FALSE, len |-> len, left |-> len, m |-> m]>>
Units(f, k) ==
  IF f.pfx THEN <<[k |-> "p", len |-> f.len, m |-> f.m]>>
  ELSE [i \in 1..k |-> [k |-> "b", len |-> f.len, m |-> f.m]]

-----------------------------------------------------------------------------
(* S = [q, cur, pob, credit, wire, quota]: sender buffers + carrier during one poll *)

\* one `poll_write(frame)` on the yamux stream
Write(S, f) ==
  IF S.quota = 0 THEN [S |-> S, f |-> f, r |-> "busy"]
  ELSE IF S.credit = 0 THEN [S |-> S, f |-> f, r |-> "credit"]
  ELSE LET k == Min2(S.credit, f.left) IN
       [S |-> [S EXCEPT !.credit = @ - k, !.wire = @ \o Units(f, k), !.quota = @ - 1],
        f |-> [f EXCEPT !.left = @ - k], r |-> "ok", k |-> k]

\* the loop of `Sink::poll_flush`
RECURSIVE FlushLoop(_)
FlushLoop(S) ==
  IF S.cur = <<>> /\ S.q = <<>> THEN [S |-> S, out |-> "done"]
  ELSE LET f == IF S.cur # <<>> THEN S.cur[1] ELSE S.q[1]
           q2 == IF S.cur # <<>> THEN S.q ELSE Tail(S.q)
           w == Write([S EXCEPT !.q = q2, !.cur = <<>>], f)
       IN IF w.r # "ok" THEN [S |-> [w.S EXCEPT !.cur = <<f>>], out |-> w.r]
          ELSE FlushLoop([w.S EXCEPT !.pob = Monus(@, w.k),
                                      !.cur = IF w.f.left > 0 THEN <<w.f>> ELSE <<>>])

\* `Sink::poll_flush`: r = "ready" | "pending";  d8: Ready although a frame is withheld
PollFlush(S) ==
  LET L == FlushLoop(S) IN
  CASE L.out = "done" -> [S |-> L.S, r |-> IF L.S.quota = 0 THEN "pending" ELSE "ready", d8 |-> FALSE]
    [] L.out = "busy" -> [S |-> L.S, r |-> "pending", d8 |-> FALSE]
    [] L.out = "credit" ->
         IF Fixed THEN [S |-> L.S, r |-> "pending", d8 |-> FALSE]
         ELSE \* `break` out of the loop, then the inner flush (Ready: the channel is not full)
              [S |-> L.S, r |-> "ready", d8 |-> \E i \in 1..Len(L.S.cur \o L.S.q) : (L.S.cur \o L.S.q)[i].left > 0]

\* `Sink::poll_ready`
PollReady(S) ==
  IF S.pob >= B
    THEN LET F == PollFlush(S) IN [S |-> F.S, r |-> F.r]
    ELSE [S |-> S, r |-> "ready"]

SizeOk(len) == Mut = "nosizecheck" \/ Valid(cfg, len)

\* `write_all(frame)` of send_framed
RECURSIVE WriteAll(_, _)
WriteAll(S, f) ==
  IF f.left = 0 THEN [S |-> S, f |-> f, r |-> "ok"]
  ELSE LET w == Write(S, f) IN
       IF w.r # "ok" THEN [S |-> S, f |-> f, r |-> "pending"] ELSE WriteAll(w.S, w.f)

Ret(o, r) == [e |-> "ret", api |-> o.api, r |-> r]

\* poll the current call o once; result [S, op, evs, kf]
RECURSIVE PollOp(_, _)
PollOp(S, o) ==
  LET done(S1, r, tags) == [S |-> S1, op |-> NoOp, evs |-> <<Ret(o, r)>>, kf |-> tags]
      wait(S1, o1) == [S |-> S1, op |-> o1, evs |-> <<>>, kf |-> {}]
  IN
  CASE o.stage = "ready" ->
         LET R == PollReady(S) IN
         IF R.r = "pending" THEN wait(R.S, o)
         ELSE IF ~SizeOk(o.len) THEN done(R.S, "refused", {})
         ELSE LET S1 == [R.S EXCEPT !.q = @ \o Frames(o.len, o.m),
                                    !.pob = @ + o.len + (IF cfg.codec = "uv" THEN 1 ELSE 0)]
              IN IF o.api = "feed" THEN done(S1, "ok", {}) ELSE PollOp(S1, [o EXCEPT !.stage = "flush"])
    [] o.stage = "flush" ->
         LET F == PollFlush(S) IN
         IF F.r = "pending" THEN wait(F.S, o) ELSE done(F.S, "ok", IF F.d8 THEN {"D8"} ELSE {})
    [] o.stage = "chk" ->
         IF ~SizeOk(o.len) THEN done(S, "refused", {})
         ELSE IF cfg.codec = "uv" THEN PollOp(S, [o EXCEPT !.stage = "wp", !.left = 1])
         ELSE PollOp(S, [o EXCEPT !.stage = "wb", !.left = o.len])
    [] o.stage = "wp" ->
         LET w == WriteAll(S, [pfx |-> TRUE, len |-> o.len, left |-> o.left, m |-> o.m]) IN
         IF w.r = "pending" THEN wait(w.S, [o EXCEPT !.left = w.f.left])
         ELSE PollOp(w.S, [o EXCEPT !.stage = "wb", !.left = o.len])
    [] o.stage = "wb" ->
         LET w == WriteAll(S, [pfx |-> FALSE, len |-> o.len, left |-> o.left, m |-> o.m]) IN
         IF w.r = "pending" /\ Mut = "framedearly" THEN done(w.S, "ok", {})
         ELSE IF w.r = "pending" THEN wait(w.S, [o EXCEPT !.left = w.f.left])
         ELSE PollOp(w.S, [o EXCEPT !.stage = "fl", !.left = 0])
    [] o.stage = "fl" ->
         IF S.quota = 0 THEN wait(S, o) ELSE done(S, "ok", {})

FirstStage(api) == IF api = "framed" THEN "chk" ELSE IF api = "flush" THEN "flush" ELSE "ready"

-----------------------------------------------------------------------------
(* R = [sz, off, first, dead, credit, wire, k, evs, kf]: receiver + carrier during one poll *)
Recv(r, len, h) == [e |-> "recv", r |-> r, len |-> len, h |-> h]
\* number of leading body units
RECURSIVE Lead(_)
Lead(w) == IF w = <<>> \/ w[1].k # "b" THEN 0 ELSE 1 + Lead(Tail(w))
Drop(w, n) == SubSeq(w, n + 1, Len(w))

RECURSIVE RecvLoop(_)
RecvLoop(R) ==
  IF R.k = 0 \/ R.dead THEN R
  ELSE IF cfg.codec = "id"
    THEN IF R.first /\ cfg.n > RBuf /\ ~Fixed
           THEN \* `&mut read_buffer[offset..payload_size]` on the initial RBuf-byte buffer
                [R EXCEPT !.dead = TRUE, !.evs = Append(@, Recv("panic", 0, 0)), !.kf = @ \cup {"D7"}]
           ELSE LET n == Min2(Lead(R.wire), cfg.n - R.off) IN
                IF n = 0 THEN R
                ELSE LET R1 == [R EXCEPT !.off = @ + n, !.wire = Drop(@, n), !.credit = @ + n] IN
                     IF R1.off = cfg.n
                       THEN RecvLoop([R1 EXCEPT !.off = 0, !.first = FALSE, !.k = @ - 1,
                                                !.evs = Append(@, Recv("msg", cfg.n, R.wire[n].m))])
                       ELSE R1
    ELSE IF R.sz < 0
      THEN IF R.wire = <<>> THEN R
           ELSE LET u == R.wire[1]
                    R1 == [R EXCEPT !.wire = Tail(@), !.credit = @ + 1]
                IN IF u.k # "p" \/ (cfg.n >= 0 /\ u.len > cfg.n)
                     THEN [R1 EXCEPT !.dead = TRUE, !.evs = Append(@, Recv("err", 0, 0))]
                   ELSE IF u.len = 0
                     THEN RecvLoop([R1 EXCEPT !.k = @ - 1, !.evs = Append(@, Recv("msg", 0, u.m))])
                   ELSE RecvLoop([R1 EXCEPT !.sz = u.len, !.off = 0])
      ELSE LET n == Min2(Lead(R.wire), R.sz - R.off) IN
           IF n = 0 THEN R
           ELSE LET R1 == [R EXCEPT !.off = @ + n, !.wire = Drop(@, n), !.credit = @ + n] IN
                IF R1.off = R.sz
                  THEN RecvLoop([R1 EXCEPT !.sz = -1, !.off = 0, !.k = @ - 1,
                                           !.evs = Append(@, Recv("msg", IF Mut = "droplast" /\ R.sz > 1 THEN R.sz - 1 ELSE R.sz, R.wire[n].m))])
                  ELSE R1

-----------------------------------------------------------------------------
Commit(S, o, R, e, tags, h) ==
  /\ snd' = [q |-> S.q, cur |-> S.cur, pob |-> S.pob]
  /\ op' = o
  /\ credit' = R.credit
  /\ wire' = R.wire
  /\ rcv' = [sz |-> R.sz, off |-> R.off, first |-> R.first, dead |-> R.dead]
  /\ evs' = e
  /\ mon' = UpdEvents(cfg, mon, e)
  /\ kf' = kf \cup tags
  /\ hist' = IF Record THEN Append(hist, h) ELSE hist
  /\ UNCHANGED <<cfg, prog>>

SOf(quota) == [q |-> snd.q, cur |-> snd.cur, pob |-> snd.pob, credit |-> credit, wire |-> wire, quota |-> quota]
ROf(c, w, k) == [sz |-> rcv.sz, off |-> rcv.off, first |-> rcv.first, dead |-> rcv.dead,
                 credit |-> c, wire |-> w, k |-> k, evs |-> <<>>, kf |-> {}]
KeepR(S) == ROf(S.credit, S.wire, 0)

\* start the next call of the program and poll it once
Op(quota) ==
  /\ op.api = "none" /\ pc <= Len(prog) /\ ~mon.inj
  /\ LET c == prog[pc]
         o == [api |-> c.api, len |-> c.len, m |-> pc, stage |-> FirstStage(c.api), left |-> 0]
         P == PollOp(SOf(quota), o)
     IN /\ pc' = pc + 1
        /\ Commit(P.S, P.op, KeepR(P.S), <<[e |-> "call", api |-> c.api, len |-> c.len, h |-> pc]>> \o P.evs, P.kf,
                  <<"op", quota>>)

Ps(quota) ==
  /\ op.api # "none"
  /\ LET P == PollOp(SOf(quota), op)
     IN /\ Commit(P.S, P.op, KeepR(P.S), P.evs, P.kf, <<"ps", quota>>)
        /\ UNCHANGED pc

Pr(k) ==
  /\ ~rcv.dead
  /\ LET R == RecvLoop(ROf(credit, wire, k))
     IN /\ Commit(SOf(0), op, R, R.evs, R.kf, <<"pr", k>>)
        /\ UNCHANGED pc

Settle ==
  LET R == RecvLoop(ROf(credit, wire, 99))
  IN /\ Commit(SOf(0), op, R, Append(R.evs, [e |-> "quiesce"]), R.kf, <<"settle", 0>>)
     /\ UNCHANGED pc

\* a malformed ("x") or oversized length prefix appears on the wire behind everything sent
Inject(kind) ==
  /\ cfg.codec = "uv" /\ op.api = "none" /\ snd.q = <<>> /\ snd.cur = <<>> /\ ~mon.inj
  /\ kind = "oversize" => cfg.n >= 0
  /\ LET u == IF kind = "oversize" THEN [k |-> "p", len |-> cfg.n + 1, m |-> 0] ELSE [k |-> "x", len |-> 0, m |-> 0]
     IN Commit(SOf(0), op, ROf(credit, Append(wire, u), 0), <<[e |-> "inject"]>>, {}, <<"inject", kind>>)
  /\ UNCHANGED pc

ImplInit(c, pr) ==
  /\ cfg = c /\ prog = pr /\ pc = 1 /\ op = NoOp
  /\ snd = [q |-> <<>>, cur |-> <<>>, pob |-> 0]
  /\ credit = W /\ wire = <<>>
  /\ rcv = [sz |-> -1, off |-> 0, first |-> TRUE, dead |-> FALSE]
  /\ mon = PropInit /\ evs = <<>> /\ kf = {} /\ hist = <<>>

ImplNext ==
  \/ \E qt \in Quotas : Op(qt) \/ Ps(qt)
  \/ \E k \in {1, 2} : Pr(k)
  \/ Settle
  \/ \E kind \in {"malformed", "oversize"} : Inject(kind)

Done == pc > Len(prog) /\ op.api = "none"

\* every step's events are allowed by the Prop layer, unless a known defect was hit before
StepOK == [][(kf' = {}) => OkEvents(cfg, mon, evs')]_vars
\* the same without the exemption: violated on the defective tree (shows the defects in the model), holds with Fixed
StrictOK == [][OkEvents(cfg, mon, evs')]_vars
\* with the fixes no known-defect step exists
NoKF == Fixed => kf = {}
View == <<cfg, prog, pc, op, snd, credit, wire, rcv, mon, kf>>
=============================================================================
