//! Stream variant: real `dialer_select_proto` / `listener_select_proto` (litep2p and/or the
//! reference crate `multistream-select`) over the scripted duplex, followed by an application
//! phase on the returned `Negotiated` io (write payload, flush, read until blocked).
use crate::duplex::{Endpoint, Mode, Op, Sh, Shared};
use futures::{
    io::{AsyncRead, AsyncReadExt, AsyncWrite, AsyncWriteExt},
    task::noop_waker,
    Future,
};
use litep2p::verif::mss as lite;
use multistream_select as refi;
use rand::{rngs::StdRng, SeedableRng};
use serde_json::{json, Value};
use std::{
    pin::Pin,
    rc::Rc,
    task::{Context, Poll},
};

pub struct Job {
    pub dlist: Vec<String>,
    pub lset: Vec<String>,
    pub lazy: bool,
    pub dpay: Vec<u8>,
    pub lpay: Vec<u8>,
    pub dimpl: String,
    pub limpl: String,
    /// the carrier of the dialer's / listener's outgoing bytes buffers until flushed
    pub dbuf: bool,
    pub lbuf: bool,
    pub ops: Vec<Op>,
    pub seed: u64,
    pub cap: usize,
    pub p_pend: f64,
    /// VERIF_FAULT (self-test of the pipeline): misreport one event class
    pub fault: String,
}

pub struct Outcome {
    pub lines: Vec<String>,
    pub drift: Option<String>,
    pub script_len: usize,
    pub script_done: usize,
    pub io_ops: u64,
    pub polls: u64,
}

struct SideLog {
    sh: Sh,
    side: usize,
    reads: Vec<u8>,
}

const SIDE: [&str; 2] = ["d", "l"];

impl SideLog {
    fn flush_reads(&mut self) {
        if !self.reads.is_empty() {
            let bs = std::mem::take(&mut self.reads);
            self.sh.borrow_mut().log.push(json!({"e": "read", "s": SIDE[self.side], "bs": bs}).to_string());
        }
    }
    fn event(&mut self, v: Value) {
        self.flush_reads();
        self.sh.borrow_mut().log.push(v.to_string());
    }
}

/// Application phase: what a protocol does with the negotiated io.
async fn app_phase<IO: AsyncRead + AsyncWrite + Unpin>(mut io: IO, payload: Rc<Vec<u8>>, cap: usize, log: Rc<std::cell::RefCell<SideLog>>) {
    let (sh, side) = {
        let l = log.borrow();
        (l.sh.clone(), l.side)
    };
    if !payload.is_empty() {
        let lo = payload.as_ptr() as usize;
        sh.borrow_mut().app_range[side] = (lo, lo + payload.len());
        let r = async {
            io.write_all(&payload).await?;
            io.flush().await
        }
        .await;
        sh.borrow_mut().app_range[side] = (0, 0);
        if let Err(e) = r {
            log.borrow_mut().event(json!({"e": "apperr", "s": SIDE[side], "op": "write", "err": e.to_string()}));
            return;
        }
    }
    let mut buf = vec![0u8; cap];
    loop {
        match io.read(&mut buf).await {
            Ok(0) => break,
            Ok(n) => log.borrow_mut().reads.extend_from_slice(&buf[..n]),
            Err(e) => {
                log.borrow_mut().event(json!({"e": "apperr", "s": SIDE[side], "op": "read", "err": e.to_string()}));
                return;
            }
        }
    }
    // EOF: keep the io until the run ends (dropping it is the driver's business)
    log.borrow_mut().flush_reads();
    futures::future::pending::<()>().await;
    drop(io);
}

type Task = Pin<Box<dyn Future<Output = ()>>>;

fn side_task(job: &Job, side: usize, ep: Endpoint, log: Rc<std::cell::RefCell<SideLog>>) -> Task {
    let names: Vec<String> = if side == 0 { job.dlist.clone() } else { job.lset.clone() };
    let payload = Rc::new(if side == 0 { job.dpay.clone() } else { job.lpay.clone() });
    let cap = job.cap;
    let imp = if side == 0 { job.dimpl.clone() } else { job.limpl.clone() };
    let lazy = job.lazy;
    let fault = job.fault.clone();
    let done = move |log: &Rc<std::cell::RefCell<SideLog>>, ok: bool, p: &str, err: String| {
        let mut p = p.to_string();
        if fault == "wrongname" && ok && side == 1 {
            p.push('x');
        }
        log.borrow_mut().event(json!({"e": "done", "s": SIDE[side], "ok": ok, "p": p, "err": err}));
    };
    match (side, imp.as_str()) {
        (0, "lite") => Box::pin(async move {
            let v = if lazy { lite::Version::V1Lazy } else { lite::Version::V1 };
            match lite::dialer_select_proto(ep, names, v).await {
                Ok((p, io)) => {
                    done(&log, true, &p, String::new());
                    app_phase(io, payload, cap, log).await
                }
                Err(e) => done(&log, false, "", format!("{e:?}")),
            }
        }),
        (1, "lite") => Box::pin(async move {
            match lite::listener_select_proto(ep, names).await {
                Ok((p, io)) => {
                    done(&log, true, &p, String::new());
                    app_phase(io, payload, cap, log).await
                }
                Err(e) => done(&log, false, "", format!("{e:?}")),
            }
        }),
        (0, "ref") => Box::pin(async move {
            let v = if lazy { refi::Version::V1Lazy } else { refi::Version::V1 };
            match refi::dialer_select_proto(ep, names, v).await {
                Ok((p, io)) => {
                    done(&log, true, &p, String::new());
                    app_phase(io, payload, cap, log).await
                }
                Err(e) => done(&log, false, "", format!("{e:?}")),
            }
        }),
        (1, "ref") => Box::pin(async move {
            match refi::listener_select_proto(ep, names).await {
                Ok((p, io)) => {
                    done(&log, true, &p, String::new());
                    app_phase(io, payload, cap, log).await
                }
                Err(e) => done(&log, false, "", format!("{e:?}")),
            }
        }),
        _ => panic!("unknown implementation {imp}"),
    }
}

const MAX_POLLS: u64 = 2_000_000;

pub fn run(job: &Job) -> Outcome {
    let rng = StdRng::seed_from_u64(job.seed);
    let sh = Shared::new(job.ops.clone(), rng, job.p_pend, [job.dbuf, job.lbuf]);
    sh.borrow_mut().eat = job.fault == "eatbyte";
    sh.borrow_mut().log.push(
        json!({"e": "reset", "variant": "stream", "dlist": job.dlist, "lset": job.lset, "lazy": job.lazy,
               "dpay": job.dpay, "lpay": job.lpay, "dimpl": job.dimpl, "limpl": job.limpl, "dbuf": job.dbuf, "lbuf": job.lbuf})
        .to_string(),
    );
    let logs: Vec<Rc<std::cell::RefCell<SideLog>>> =
        (0..2).map(|s| Rc::new(std::cell::RefCell::new(SideLog { sh: sh.clone(), side: s, reads: vec![] }))).collect();
    let mut tasks: Vec<Option<Task>> = (0..2)
        .map(|s| Some(side_task(job, s, Endpoint { sh: sh.clone(), side: s }, logs[s].clone())))
        .collect();
    let waker = noop_waker();
    let mut cx = Context::from_waker(&waker);
    let mut blocked = [false; 2];
    let mut polls = 0u64;
    let mut livelock = false;
    if !job.ops.is_empty() {
        // the dialer's first step (queueing header + first proposal, or failing on an empty list) performs
        // no io of its own in the model; it always precedes the listener's first read
        polls += 1;
        sh.borrow_mut().injected = false;
        match vharness::catch(|| tasks[0].as_mut().unwrap().as_mut().poll(&mut cx)) {
            Ok(Poll::Pending) => {}
            Ok(Poll::Ready(())) => tasks[0] = None,
            Err(msg) => {
                logs[0].borrow_mut().event(json!({"e": "panic", "s": "d", "msg": msg}));
                tasks[0] = None;
            }
        }
    }
    loop {
        let live: Vec<usize> = (0..2).filter(|s| tasks[*s].is_some()).collect();
        if live.is_empty() || live.iter().all(|s| blocked[*s]) {
            break;
        }
        if polls >= MAX_POLLS {
            livelock = true;
            break;
        }
        let turn = sh.borrow_mut().script_turn();
        let side = match turn {
            Some(s) if tasks[s].is_some() => s,
            Some(_) => {
                sh.borrow_mut().note_drift("model expects io from a side that already returned");
                continue;
            }
            None => {
                let cand: Vec<usize> = live.iter().copied().filter(|s| !blocked[*s]).collect();
                use rand::Rng;
                cand[sh.borrow_mut().rng.gen_range(0..cand.len())]
            }
        };
        let (before, pos_before) = {
            let mut g = sh.borrow_mut();
            g.injected = false;
            (g.progress, g.pos)
        };
        polls += 1;
        let r = vharness::catch(|| tasks[side].as_mut().unwrap().as_mut().poll(&mut cx));
        let finished = match r {
            Ok(Poll::Ready(())) => true,
            Ok(Poll::Pending) => false,
            Err(msg) => {
                logs[side].borrow_mut().event(json!({"e": "panic", "s": SIDE[side], "msg": msg}));
                true
            }
        };
        if finished {
            tasks[side] = None; // drops the future and with it the endpoint
        }
        let (after, injected, pos_after, mode) = {
            let g = sh.borrow();
            (g.progress, g.injected, g.pos, g.mode)
        };
        if after != before || finished {
            blocked = [false; 2];
        } else if !injected {
            blocked[side] = true;
            if turn.is_some() && mode == Mode::Script && pos_after == pos_before {
                sh.borrow_mut().note_drift("side is blocked where the model expects io");
                blocked = [false; 2];
            }
        }
    }
    for l in &logs {
        l.borrow_mut().flush_reads();
    }
    drop(tasks);
    let mut g = sh.borrow_mut();
    if livelock {
        g.log.push(json!({"e": "livelock", "polls": polls}).to_string());
    } else {
        g.log.push(json!({"e": "quiesce"}).to_string());
    }
    Outcome {
        lines: std::mem::take(&mut g.log),
        drift: g.drift.clone(),
        script_len: g.script.len(),
        script_done: g.pos,
        io_ops: g.io_ops,
        polls,
    }
}
