------------------------------- MODULE ReqResp -------------------------------
(***************************************************************************)
(* Property-level monitor for C13: every request handed to a request-      *)
(* response protocol gets at most one terminal event carrying its request  *)
(* id, and exactly one (the response or a failure) unless the user         *)
(* cancelled it; a delivered response is what the responder supplied for   *)
(* that very request; the responder sees each request once; the configured *)
(* bound on concurrently outstanding inbound requests is respected.        *)
(*                                                                         *)
(* The monitor talks only about what the *users* of the protocol do and    *)
(* see through litep2p's public API                                        *)
(*   RequestResponseHandle::{send_request, try_send_request,               *)
(*     cancel_request, send_response, reject_request} and                  *)
(*   RequestResponseEvent::{RequestReceived, ResponseReceived,             *)
(*     RequestFailed}.                                                     *)
(* It is the most liberal reading of the statement: which failure a        *)
(* request ends with, when, and in which order unrelated events arrive is  *)
(* left open.  The same operators drive the monitor inside the bounded     *)
(* implementation-shaped model (ReqRespMC) and the validation of traces    *)
(* recorded from real litep2p nodes (ReqRespTrace).                        *)
(*                                                                         *)
(* Events are fed in an order consistent with causality: a command is fed  *)
(* before it is given to the library, an event after it was observed.      *)
(***************************************************************************)
EXTENDS Naturals, Integers, Sequences, FiniteSets, TLC

NoLimit == -1

(* Monitor state
     req  : nonce -> [o, to, h, st, rid, canc, seen, ansd, ans, rep]
              o, to  issuing user (node) and target node
              h      digest of the request payload
              st     "pre"   send_request called, not yet returned
                     "open"  handed over (request id known), no terminal event yet
                     "resp" / "fail"  terminal event seen
                     "void"  never handed over (send_request returned an error) - no obligation
                     "orphan" the issuing node was dropped before a terminal event - no
                             obligation, but the request may still reach its responder
              canc   the user cancelled it
              seen   the responder's user was shown this request
              ansd, ans  the responder's user supplied a response with digest ans
              rep    already reported (trace validation keeps going after a broken rule)
     rid  : <<node, request id>> -> nonce        ids returned by send_request
     inb  : <<node, inbound request id>> -> [n, open]   requests shown to a responder
     maxc : node -> configured bound on concurrent inbound requests (NoLimit = none)
     dead : nodes that were dropped (their users no longer observe anything)
     bad  : "" or the rule that was broken                                         *)

MonInit(maxc) ==
  [req |-> <<>>, rid |-> <<>>, inb |-> <<>>, maxc |-> maxc, dead |-> {}, bad |-> "", c04 |-> FALSE]

\* Scripts without injected faults can additionally be judged by the last clause of C04 lifted to the connection:
\* "when a send is reported complete the whole message has been handed to the transport, so the peer receives it
\* without any further action by the sender".  rc marks a request whose response send was reported complete
\* (send_response returned, resp. the feedback of send_response_with_feedback said so) while the requester was
\* still waiting.
WithC04(M, on) == [M EXCEPT !.c04 = on]

Fail(M, why) == IF M.bad = "" THEN [M EXCEPT !.bad = why] ELSE M

Alive(M, o) == o \notin M.dead

OpenInb(M, o) == {k \in DOMAIN M.inb : k[1] = o /\ M.inb[k].open}

\* the user of node o calls send_request(to, payload) - fed before the call
MonIssue(M, o, n, to, h) ==
  IF ~Alive(M, o) THEN M
  ELSE IF n \in DOMAIN M.req THEN Fail(M, "harness: nonce reused")
  ELSE [M EXCEPT !.req = (n :> [o |-> o, to |-> to, h |-> h, st |-> "pre", rid |-> -1, canc |-> FALSE,
                                seen |-> FALSE, ansd |-> FALSE, ans |-> "", rep |-> FALSE, rc |-> FALSE]) @@ @]

\* send_request returned: Ok(request id) or an error (nothing was handed over)
MonIssued(M, o, n, rid, ok) ==
  IF ~Alive(M, o) THEN M
  ELSE IF n \notin DOMAIN M.req \/ M.req[n].st # "pre" THEN Fail(M, "harness: issued without issue")
  ELSE IF ~ok THEN [M EXCEPT !.req[n].st = "void"]
  ELSE IF <<o, rid>> \in DOMAIN M.rid THEN Fail(M, "request id handed out twice")
  ELSE [M EXCEPT !.req[n].st = "open", !.req[n].rid = rid, !.rid = (<<o, rid>> :> n) @@ @]

\* the user calls cancel_request(rid) - fed before the call
MonCancel(M, o, rid) ==
  IF ~Alive(M, o) \/ <<o, rid>> \notin DOMAIN M.rid THEN M
  ELSE [M EXCEPT !.req[M.rid[<<o, rid>>]].canc = TRUE]

\* RequestResponseEvent::ResponseReceived { request_id, response }
MonResp(M, o, rid, h) ==
  IF ~Alive(M, o) THEN M
  ELSE IF <<o, rid>> \notin DOMAIN M.rid THEN Fail(M, "terminal event for a request id that was never handed out")
  ELSE LET n == M.rid[<<o, rid>>] r == M.req[n] IN
       IF r.st \in {"resp", "fail"} THEN Fail(M, "second terminal event for one request")
       ELSE IF ~r.ansd THEN Fail([M EXCEPT !.req[n].st = "resp"], "response delivered although the responder supplied none for this request")
       ELSE IF r.ans # h THEN Fail([M EXCEPT !.req[n].st = "resp"], "response differs from what the responder supplied for this request")
       ELSE [M EXCEPT !.req[n].st = "resp"]

\* RequestResponseEvent::RequestFailed { request_id, error }
MonFailEv(M, o, rid) ==
  IF ~Alive(M, o) THEN M
  ELSE IF <<o, rid>> \notin DOMAIN M.rid THEN Fail(M, "terminal event for a request id that was never handed out")
  ELSE LET n == M.rid[<<o, rid>>] r == M.req[n] IN
       IF r.st \in {"resp", "fail"} THEN Fail(M, "second terminal event for one request")
       ELSE IF M.c04 /\ r.rc /\ ~r.canc
         THEN Fail([M EXCEPT !.req[n].st = "fail"], "response reported sent but lost on a link without fault")
       ELSE [M EXCEPT !.req[n].st = "fail"]

\* requests from `from` to o with payload digest h the responder has not been shown yet
Unseen(M, o, from, h) ==
  {k \in DOMAIN M.req : M.req[k].o = from /\ M.req[k].to = o /\ M.req[k].h = h /\ ~M.req[k].seen
                        /\ M.req[k].st # "void"}
SeenAlready(M, o, from, h) ==
  \E k \in DOMAIN M.req : M.req[k].o = from /\ M.req[k].to = o /\ M.req[k].h = h /\ M.req[k].seen

MinOf(S) == CHOOSE x \in S : \A y \in S : x <= y

\* RequestResponseEvent::RequestReceived { peer: from, request_id: irid, request }
\* n is the nonce carried inside the payload, or -1 for payloads too short to carry one
\* (those are matched by sender and digest).
MonRecv(M, o, from, irid, n, h) ==
  IF ~Alive(M, o) THEN M
  ELSE
  LET tagged == n >= 0
      known == tagged /\ n \in DOMAIN M.req /\ M.req[n].o = from /\ M.req[n].to = o /\ M.req[n].st # "void"
      cand == IF tagged THEN (IF known /\ M.req[n].h = h /\ ~M.req[n].seen THEN {n} ELSE {}) ELSE Unseen(M, o, from, h)
  IN
  IF cand = {} THEN
       IF (known /\ M.req[n].seen) \/ (~tagged /\ SeenAlready(M, o, from, h)) THEN Fail(M, "responder saw a request twice")
       ELSE IF known THEN Fail(M, "request payload differs from what was sent")
       ELSE Fail(M, "responder received a request nobody sent")
  ELSE LET m == MinOf(cand)
           M1 == [M EXCEPT !.req[m].seen = TRUE, !.inb = (<<o, irid>> :> [n |-> m, open |-> TRUE]) @@ @] IN
       IF <<o, irid>> \in DOMAIN M.inb /\ M.inb[<<o, irid>>].open THEN Fail(M1, "inbound request id reused while outstanding")
       ELSE IF M.maxc[o] # NoLimit /\ Cardinality(OpenInb(M1, o)) > M.maxc[o]
         THEN Fail(M1, "more inbound requests outstanding than the configured bound")
       ELSE M1

\* the responder's user calls send_response(irid, payload) - fed before the call
MonAnswer(M, o, irid, h) ==
  IF ~Alive(M, o) THEN M
  ELSE IF <<o, irid>> \notin DOMAIN M.inb \/ ~M.inb[<<o, irid>>].open THEN Fail(M, "harness: answer without request")
  ELSE LET n == M.inb[<<o, irid>>].n IN
       [M EXCEPT !.inb[<<o, irid>>].open = FALSE, !.req[n].ansd = TRUE, !.req[n].ans = h]

\* send_response (fb = FALSE: reported complete when it returns) or send_response_with_feedback (fb = TRUE:
\* reported complete when the feedback channel says so, see MonSent); only a requester that is still waiting counts
MonAnswerFb(M, o, irid, h, fb) ==
  LET M1 == MonAnswer(M, o, irid, h) IN
  IF M1.bad # "" \/ ~Alive(M, o) \/ ~M.c04 \/ fb THEN M1
  ELSE LET n == M.inb[<<o, irid>>].n IN [M1 EXCEPT !.req[n].rc = (M1.req[n].st = "open")]

\* the feedback of send_response_with_feedback resolved: ok = the response was sent
MonSent(M, o, irid, ok) ==
  IF ~Alive(M, o) \/ ~M.c04 \/ ~ok \/ <<o, irid>> \notin DOMAIN M.inb THEN M
  ELSE LET n == M.inb[<<o, irid>>].n IN [M EXCEPT !.req[n].rc = (M.req[n].st = "open")]

\* the responder's user calls reject_request(irid) - fed before the call
MonReject(M, o, irid) ==
  IF ~Alive(M, o) THEN M
  ELSE IF <<o, irid>> \notin DOMAIN M.inb \/ ~M.inb[<<o, irid>>].open THEN Fail(M, "harness: reject without request")
  ELSE [M EXCEPT !.inb[<<o, irid>>].open = FALSE]

\* node o is dropped: its users observe nothing any more, its own requests carry no obligation
MonKill(M, o) ==
  [M EXCEPT !.dead = @ \cup {o},
            !.req = [k \in DOMAIN @ |-> IF @[k].o = o /\ @[k].st \in {"pre", "open"} THEN [@[k] EXCEPT !.st = "orphan"] ELSE @[k]],
            !.inb = [k \in DOMAIN @ |-> IF k[1] = o THEN [@[k] EXCEPT !.open = FALSE] ELSE @[k]]]

\* requests that were handed over, not cancelled, and have no terminal event
Unsettled(M) == {k \in DOMAIN M.req : M.req[k].st = "open" /\ ~M.req[k].canc /\ ~M.req[k].rep}

\* nothing is in flight any more (model: no enabled internal step; real nodes: three times the
\* configured dial + substream + request timeouts have passed since the last command)
MonQuiesce(M) ==
  IF Unsettled(M) # {} THEN Fail(M, "silence: a request never got a terminal event") ELSE M

\* trace validation reports a broken rule and keeps going
Forgive(M) ==
  IF M.bad = "" THEN M
  ELSE [M EXCEPT !.bad = "",
                 !.req = [k \in DOMAIN @ |-> IF k \in Unsettled(M) /\ M.bad = "silence: a request never got a terminal event"
                                               THEN [@[k] EXCEPT !.rep = TRUE] ELSE @[k]]]
=============================================================================
