SPECIFICATION TSpec
CONSTANTS
  Peers = {"p1", "p2", "p3"}
  Svc = {0, 1}
  KAs <- KAAny
  MaxCid = 1000000
  MaxPerPeer = 1000000
  MaxOverlap = 1000000
  MaxOpens = 1000000
  MaxInb = 1000000
  MaxFc = 1000000
  MaxExp = 1000000
  MaxFull = 1000000
  MaxDropProto = 1000000
  Phases = TRUE
  PCap = 4096
  Eager <- NoEager
  EagerCmd = FALSE
  SplitClose = TRUE
  Clog = TRUE
  Bug = "none"
POSTCONDITION Accepted
CHECK_DEADLOCK FALSE
