------------------------------ MODULE AddrBook ------------------------------
(***************************************************************************)
(* Per-peer address book of litep2p: AddressStore                          *)
(* (src/transport/manager/address.rs), the filter in front of it           *)
(* (TransportManagerHandle::add_known_address, handle.rs) and the dial     *)
(* order (TransportManager::dial).                                         *)
(*  Impl*: transcription of the code (eviction picks *some* minimum).      *)
(*  Prop*: what property C10 demands, as predicates over                   *)
(*         (pre-store, call, result, post-store).                          *)
(* A store is a function  address name -> score.                           *)
(***************************************************************************)
EXTENDS Naturals, Integers, FiniteSets, Sequences, TLC

MinScore == -2147483647 - 1      \* scores::ADDRESS_FAILURE = i32::MIN
Bonus == 1                       \* scores::PUBLIC_ADDRESS_BONUS

Dom(S) == DOMAIN S
MinOf(S) == CHOOSE m \in {S[a] : a \in Dom(S)} : \A b \in Dom(S) : m <= S[b]
Mins(S) == {a \in Dom(S) : S[a] = MinOf(S)}
Restrict(S, D) == [a \in D |-> S[a]]
SatAdd(x, y) == IF x + y > 2147483647 THEN 2147483647 ELSE x + y

-----------------------------------------------------------------------------
(* Impl: AddressStore::insert(record{addr, score}); `global` = is_global_multiaddr(addr).     *)
(* Returns the SET of possible post-stores (HashMap iteration order picks the evicted min).   *)
ImplInsert(K, S, a, score, global) ==
  IF a \in Dom(S) THEN {IF score # 0 THEN [S EXCEPT ![a] = score] ELSE S}
  ELSE LET sc == IF global THEN SatAdd(score, Bonus) ELSE score IN
       IF Cardinality(Dom(S)) >= K
         THEN IF sc < MinOf(S) THEN {S}
              ELSE {(a :> sc) @@ Restrict(S, Dom(S) \ {v}) : v \in Mins(S)}
         ELSE {(a :> sc) @@ S}

(* Prop: C10 for one insert                                                                   *)
PropInsert(K, S, a, score, global, T) ==
  /\ Cardinality(Dom(T)) <= K                                  \* bounded
  /\ Dom(T) \subseteq Dom(S) \cup {a}                          \* nothing from nowhere
  /\ \A b \in Dom(T) \cap Dom(S) : b # a => T[b] = S[b]        \* re-scores exactly the address used
  \* a known address: an explicit (non-zero) result re-scores it, rediscovery (0) does not erase it
  /\ a \in Dom(S) => /\ Dom(T) = Dom(S)
                     /\ T[a] = IF score # 0 THEN score ELSE S[a]
  \* a new address: at most one record is displaced and it is a lowest-scored one
  /\ a \notin Dom(S) =>
       /\ Cardinality(Dom(S) \ Dom(T)) <= 1
       /\ \A v \in Dom(S) \ Dom(T) : /\ v \in Mins(S)
                                     /\ Cardinality(Dom(S)) >= K
                                     /\ a \in Dom(T)
       /\ a \in Dom(T) => T[a] \in {score, SatAdd(score, Bonus)}

(* Prop: AddressStore::addresses(limit) -> sequence                                           *)
PropList(S, limit, ret) ==
  /\ Len(ret) = (IF limit < Cardinality(Dom(S)) THEN limit ELSE Cardinality(Dom(S)))
  /\ \A i \in 1..Len(ret) : ret[i] \in Dom(S)
  /\ \A i, j \in 1..Len(ret) : i < j => ret[i] # ret[j] /\ S[ret[i]] >= S[ret[j]]
  \* the returned ones are the best ones
  /\ \A b \in Dom(S) : (\A i \in 1..Len(ret) : ret[i] # b) =>
        \A i \in 1..Len(ret) : S[ret[i]] >= S[b]

-----------------------------------------------------------------------------
(* Filter decision table: an offered address is described by its shape.                       *)
(*  first : "ip4" "ip4_unspec" "ip4_loop" "ip6" "ip6_unspec" "ip6_loop" "dns" "dns4" "dns6" "other" "empty" *)
(*  second: "tcp" "udp" "none" "other"                                                        *)
(*  tail  : "none" "own" "foreign" "localnode" "ws" "ws_own" "own_own" "own_foreign" "foreign_own" "own_extra" "extra" *)
(*  local : "no" "exact" "sameport_ip" "unspec_listener_loopback" "loopback_loopback"         *)
FirstOK(f) == f \in {"ip4", "ip4_loop", "ip6", "ip6_loop", "dns", "dns4", "dns6"}
\* what the TCP transport can parse and dial: <ip|dns>/tcp/<port>[/p2p/<id>] and nothing after it
TcpDialable(sh) == /\ sh.first \in {"ip4", "ip4_unspec", "ip4_loop", "ip6", "ip6_unspec", "ip6_loop", "dns", "dns4", "dns6"}
                   /\ sh.second = "tcp"
                   /\ sh.tail \in {"none", "own", "foreign", "localnode"}
NamesPeerOrNone(sh) == sh.tail \in {"none", "own"}
IsLocal(sh) == sh.local # "no"

\* C10: remembered ONLY IF it names that peer (or none), is not a local listen address, and an
\* enabled transport can dial it
MayRemember(sh) == NamesPeerOrNone(sh) /\ ~IsLocal(sh) /\ TcpDialable(sh) /\ sh.first \notin {"ip4_unspec", "ip6_unspec"}

\* transcription of supported_transport() + is_local_address() + peer-id check (tcp only enabled):
\* exactly <ip|dns>/tcp/<port>/p2p/<id>, ip not unspecified, not a listen address, id = the peer's
ImplRemembers(sh) ==
  /\ FirstOK(sh.first)
  /\ sh.second = "tcp"
  /\ sh.tail = "own"
  /\ ~IsLocal(sh)
=============================================================================
