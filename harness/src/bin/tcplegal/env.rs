//! Remote endpoints the driver controls (shared by all executions of one run).
use litep2p::{
    config::ConfigBuilder, crypto::ed25519::Keypair, transport::tcp::config::Config as TcpConfig, Litep2p,
};
use multiaddr::{Multiaddr, Protocol};
use std::{net::SocketAddr, time::Duration};
use tokio::{io::AsyncWriteExt, sync::mpsc};

pub struct Env {
    /// Full addresses (`/ip4/127.0.0.1/tcp/<port>/p2p/<peer>`) of healthy remote nodes.
    healthy: Vec<Multiaddr>,
    /// Command channels of the nodes that dial the transport under test.
    dialers: Vec<mpsc::UnboundedSender<Multiaddr>>,
    pub refused: Multiaddr,
    pub blackhole: Multiaddr,
    pub garbage: Vec<Multiaddr>,
    _refused_socket: tokio::net::TcpSocket,
}

pub fn socket_of(a: &Multiaddr) -> SocketAddr {
    let mut it = a.iter();
    match (it.next(), it.next()) {
        (Some(Protocol::Ip4(ip)), Some(Protocol::Tcp(port))) => SocketAddr::new(ip.into(), port),
        _ => panic!("socket address {a}"),
    }
}

fn node() -> Litep2p {
    let cfg = ConfigBuilder::new()
        .with_keypair(Keypair::generate())
        .with_tcp(TcpConfig {
            listen_addresses: vec!["/ip4/127.0.0.1/tcp/0".parse().unwrap()],
            reuse_port: false,
            ..Default::default()
        })
        .with_keep_alive_timeout(Duration::from_secs(2))
        .build();
    Litep2p::new(cfg).expect("remote node")
}

async fn listener() -> (tokio::net::TcpListener, Multiaddr) {
    let l = tokio::net::TcpListener::bind("127.0.0.1:0").await.unwrap();
    let port = l.local_addr().unwrap().port();
    (l, format!("/ip4/127.0.0.1/tcp/{port}").parse().unwrap())
}

impl Env {
    pub async fn new(n_healthy: usize, n_dialers: usize) -> Self {
        let mut healthy = vec![];
        for _ in 0..n_healthy {
            let mut n = node();
            let addr = n.listen_addresses().next().unwrap().clone();
            healthy.push(addr);
            tokio::spawn(async move { while n.next_event().await.is_some() {} });
        }
        let mut dialers = vec![];
        for _ in 0..n_dialers {
            let mut n = node();
            let (tx, mut rx) = mpsc::unbounded_channel::<Multiaddr>();
            dialers.push(tx);
            tokio::spawn(async move {
                loop {
                    tokio::select! {
                        cmd = rx.recv() => match cmd {
                            Some(a) => { let _ = n.dial_address(a).await; }
                            None => break,
                        },
                        ev = n.next_event() => if ev.is_none() { break },
                    }
                }
            });
        }
        // refused: bound, never listening (the port stays reserved for the whole run)
        let sock = tokio::net::TcpSocket::new_v4().unwrap();
        sock.bind("127.0.0.1:0".parse().unwrap()).unwrap();
        let refused: Multiaddr = format!("/ip4/127.0.0.1/tcp/{}", sock.local_addr().unwrap().port()).parse().unwrap();
        // blackhole: accept, keep the socket for a while, never answer
        let (l, blackhole) = listener().await;
        tokio::spawn(async move {
            loop {
                if let Ok((s, _)) = l.accept().await {
                    tokio::spawn(async move {
                        tokio::time::sleep(Duration::from_secs(15)).await;
                        drop(s);
                    });
                }
            }
        });
        let mut garbage = vec![];
        for variant in 0..3 {
            let (l, a) = listener().await;
            garbage.push(a);
            tokio::spawn(async move {
                loop {
                    if let Ok((mut s, _)) = l.accept().await {
                        tokio::spawn(async move {
                            match variant {
                                0 => {}
                                1 => {
                                    let _ = s.write_all(b"\x13/multistream/1.0.0\n\x07/nope\n\xff\xff\xff garbage").await;
                                }
                                _ => {
                                    // agree on /noise, then junk instead of a handshake message
                                    let _ = s.write_all(b"\x13/multistream/1.0.0\n\x07/noise\n").await;
                                    tokio::time::sleep(Duration::from_millis(30)).await;
                                    let _ = s.write_all(&[0x00, 0x20, 1, 2, 3, 4, 5, 6, 7, 8, 9, 10, 11, 12, 13, 14, 15, 16, 17, 18, 19, 20, 21, 22, 23, 24, 25, 26, 27, 28, 29, 30, 31, 32]).await;
                                    tokio::time::sleep(Duration::from_millis(100)).await;
                                }
                            }
                        });
                    }
                }
            });
        }
        Env { healthy, dialers, refused, blackhole, garbage, _refused_socket: sock }
    }

    pub fn healthy_addr(&self, n: usize) -> Multiaddr {
        self.healthy[n % self.healthy.len()].clone()
    }

    pub fn dialer_dial(&self, n: usize, target: Multiaddr) {
        let _ = self.dialers[n % self.dialers.len()].send(target);
    }
}
