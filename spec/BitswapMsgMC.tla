---------------------------- MODULE BitswapMsgMC ----------------------------
(* C20, certification per message: every sequence of block verdict kinds up  *)
(* to MaxBlocks through the transcription of on_message_received (or, with   *)
(* ZipByPosition = TRUE, through the 'filter then zip by position' variant,  *)
(* the negative model) against the property-level rule; the sequences are    *)
(* emitted for replay into the real Bitswap::on_message_received.            *)
EXTENDS Bitswap, TLC, Json

CONSTANTS MaxBlocks, ZipByPosition

VARIABLES started, kinds
vars == <<started, kinds>>

AllKindSeqs == UNION {[1..n -> MsgBlockKinds] : n \in 1..MaxBlocks}

Init == started = FALSE /\ kinds = <<>>
Next == ~started /\ started' = TRUE /\ kinds' \in AllKindSeqs
Spec == Init /\ [][Next]_vars

Delivered == IF ZipByPosition THEN ZipMsgDeliver(kinds) ELSE ImplMsgDeliver(kinds)
MsgOK == KindsConsistent /\ (started => PropMsg(kinds, Delivered))

Emit == PrintT(<<"B", ToJson([kinds |-> kinds', classes |-> [i \in 1..Len(kinds') |-> KindClass(kinds'[i])]])>>)
=============================================================================
