//! C09, unit level: the handle discipline behind the idle mechanism.  Real `TransportService`s
//! (keep-alive protocols `k`, `j` and the non-keep-alive protocol `n`) in front of scripted
//! connections (`litep2p::verif::svc::ServiceHarness`); time is scripted (`expire` lets the
//! keep-alive timeout of one (protocol, connection) pair elapse and polls the service).  Schedules
//! come from TLC behaviours of KeepAliveMC (open, open refused because the command channel is full,
//! substream opened / failed, inbound substream, expiry) and from seeded random histories (two
//! connections, three protocols).  After every step the projection of every protocol's handles and
//! tracker entries is recorded; every execution ends with an epilogue (answer everything, two
//! expiry rounds, "are all senders of the connection gone?").  TLC validates the log against
//! KeepAlive.tla Part 2; the projections expected by the model are compared as a drift note.
use litep2p::{
    verif::svc::{Cmd, Delivery, ServiceHarness, SvcEvent},
    PeerId,
};
use multiaddr::Multiaddr;
use rand::{rngs::StdRng, Rng, SeedableRng};
use serde_json::{json, Value};
use std::collections::BTreeMap;
use vharness::*;

const NAMES: [&str; 3] = ["k", "j", "n"];
const KA: [bool; 3] = [true, true, false];

struct World {
    h: ServiceHarness,
    peer: PeerId,
    conns: Vec<usize>,
    /// substream id -> (protocol index, connection id) of accepted opens not answered yet
    pending: BTreeMap<usize, (usize, usize)>,
    /// model open id -> real substream id
    ids: BTreeMap<u64, usize>,
    out: Vec<String>,
    clogs_effective: usize,
    drift: Vec<String>,
}

/// result of a substream report into an inbox that is never filled up by these schedules
fn done(d: Result<Delivery, String>) -> Result<(), String> {
    match d? {
        Delivery::Done(r) => r,
        Delivery::Blocked => Err("blocked".into()),
    }
}

fn qi(name: &str) -> usize {
    NAMES.iter().position(|n| *n == name).expect("protocol name")
}

impl World {
    fn new() -> Self {
        World { h: ServiceHarness::new(&KA), peer: PeerId::random(), conns: vec![], pending: BTreeMap::new(), ids: BTreeMap::new(), out: vec![], clogs_effective: 0, drift: vec![] }
    }

    fn proj(&self) -> Value {
        let mut v = vec![];
        for q in 0..NAMES.len() {
            let tracked: Vec<usize> = self.h.keep_alive_tracked(q).iter().filter(|(p, _)| *p == self.peer).map(|(_, c)| *c).collect();
            if let Some((pri, pa, sec)) = self.h.connections(q, &self.peer) {
                v.push(json!({"k": format!("{}:{}", NAMES[q], pri), "act": pa, "trk": tracked.contains(&pri)}));
                if let Some((s, sa)) = sec {
                    v.push(json!({"k": format!("{}:{}", NAMES[q], s), "act": sa, "trk": tracked.contains(&s)}));
                }
            }
        }
        json!(v)
    }

    fn rec(&mut self, a: &str, q: usize, c: usize, ok: bool, extra: Value) {
        let mut v = json!({"e": "u", "a": a, "key": format!("{}:{}", NAMES[q], c), "q": NAMES[q], "c": c, "ka": KA[q], "ok": ok, "proj": self.proj()});
        if let Some(m) = extra.as_object() {
            for (k, x) in m {
                v[k] = x.clone();
            }
        }
        self.out.push(v.to_string());
    }

    fn poll_all(&mut self, q: usize) -> Vec<SvcEvent> {
        let mut evs = vec![];
        loop {
            match self.h.poll_service(q) {
                SvcEvent::Pending | SvcEvent::Terminated => return evs,
                e => evs.push(e),
            }
        }
    }

    /// the scripted connections read their command channels; accepted opens become pending requests
    fn read_commands(&mut self) -> usize {
        let mut fc = 0;
        for c in self.conns.clone() {
            loop {
                match self.h.next_command(c) {
                    Some(Cmd::Open { protocol, id, cid, .. }) => {
                        self.pending.insert(id, (protocol, cid));
                    }
                    Some(Cmd::ForceClose) => fc += 1,
                    _ => break,
                }
            }
        }
        fc
    }

    fn primary(&self, q: usize) -> Option<usize> {
        self.h.connections(q, &self.peer).map(|x| x.0)
    }

    fn establish(&mut self) {
        let c = self.conns.len() + 1;
        let addr: Multiaddr = format!("/ip4/10.0.0.{}/tcp/{}", c, 30000 + c).parse().unwrap();
        let r = self.h.establish(self.peer, c, c % 2 == 0, addr, None);
        self.conns.push(c);
        for q in 0..NAMES.len() {
            self.poll_all(q);
        }
        self.rec("est", 0, c, r.is_ok(), json!({}));
    }

    fn open(&mut self, q: usize, model_id: Option<u64>) {
        let Some(c) = self.primary(q) else { return };
        match self.h.open_substream(q, self.peer) {
            Ok(sid) => {
                self.read_commands();
                let c = self.pending.get(&sid).map(|x| x.1).unwrap_or(c);
                if let Some(m) = model_id {
                    self.ids.insert(m, sid);
                }
                self.rec("open", q, c, true, json!({"sid": sid}));
            }
            Err(e) => self.rec("open", q, c, false, json!({"ret": e})),
        }
    }

    /// fill the command channel of q's primary connection through another protocol's force_close, then
    /// let q try to open a substream
    fn clog(&mut self, q: usize) {
        let Some(c) = self.primary(q) else { return };
        let other = 2; // `n` never opens substreams in these schedules; force_close does not touch keep-alive state
        let mut filled = 0usize;
        loop {
            match self.h.force_close(other, self.peer) {
                Ok(()) => filled += 1,
                Err(_) => break,
            }
            if filled > 2000 {
                break;
            }
        }
        let r = self.h.open_substream(q, self.peer);
        let ret = match &r {
            Ok(_) => "ok".to_string(),
            Err(e) => e.clone(),
        };
        if ret == "ChannelClogged" {
            self.clogs_effective += 1;
        }
        // the connection catches up with its command channel again (ForceClose is ignored by the script)
        self.read_commands();
        match r {
            Ok(sid) => {
                let c = self.pending.get(&sid).map(|x| x.1).unwrap_or(c);
                self.rec("open", q, c, true, json!({"sid": sid, "after_clog_attempt": true}));
            }
            Err(_) => self.rec("clog", q, c, false, json!({"ret": ret, "filled": filled})),
        }
    }

    fn reply(&mut self, sid: usize, opened: bool) {
        let Some((q, c)) = self.pending.remove(&sid) else { return };
        let r = done(self.h.reply(c, sid, opened, false));
        self.poll_all(q);
        self.rec(if opened { "opened" } else { "failed" }, q, c, r.is_ok(), json!({"sid": sid}));
    }

    fn inbound(&mut self, q: usize, c: usize) {
        let r = done(self.h.inbound(c, q, false));
        self.poll_all(q);
        self.rec("inbound", q, c, r.is_ok(), json!({"ret": r.err().unwrap_or("ok".into())}));
    }

    fn expire(&mut self, q: usize, c: usize) {
        let tracked = self.h.expire_keep_alive(q, self.peer, c);
        self.poll_all(q);
        self.rec("expire", q, c, true, json!({"tracked": tracked}));
    }

    /// compare with the projection the model expects after this stimulus (drift note, never a verdict)
    fn compare(&mut self, s: &Value) {
        let p = self.proj();
        for (mname, rname) in [("k", "k:1"), ("n", "n:1")] {
            let want_act = s["hs"][mname] == "active";
            let want_trk = s["trk"][mname] == true;
            if let Some(e) = p.as_array().unwrap().iter().find(|e| e["k"] == rname) {
                if e["act"] != want_act || e["trk"] != want_trk {
                    if self.drift.len() < 5 {
                        self.drift.push(format!("after {} the model expects {}: active={} tracked={}, the service shows {}", s["a"], rname, want_act, want_trk, e));
                    } else {
                        self.drift.push(String::new());
                    }
                }
            }
        }
    }

    fn epilogue(&mut self) {
        // answer everything that is still open, then two expiry rounds for every pair
        for sid in self.pending.keys().copied().collect::<Vec<_>>() {
            self.reply(sid, false);
        }
        for _ in 0..2 {
            for q in 0..NAMES.len() {
                for c in self.conns.clone() {
                    let known = self.h.connections(q, &self.peer).map(|(p, _, s)| p == c || s.map(|x| x.0) == Some(c)).unwrap_or(false);
                    if known {
                        self.expire(q, c);
                    }
                }
            }
        }
        for c in self.conns.clone() {
            let mut closed = false;
            loop {
                match self.h.next_command(c) {
                    Some(Cmd::Closed) => {
                        closed = true;
                        break;
                    }
                    Some(Cmd::Pending) | None => break,
                    _ => {}
                }
            }
            let mut v = json!({"e": "u", "a": "final", "key": format!("conn:{c}"), "c": c, "closed": closed, "ok": true, "ka": false, "proj": self.proj()});
            v["q"] = json!("-");
            self.out.push(v.to_string());
        }
    }

    fn run_model(&mut self, stims: &[Value]) {
        self.establish();
        for s in stims {
            let q = s["q"].as_str().map(qi);
            match s["a"].as_str().unwrap_or("") {
                "open" => self.open(q.unwrap(), s["id"].as_u64()),
                "clog" => self.clog(q.unwrap()),
                "opened" => {
                    if s["rem"] == true {
                        self.inbound(q.unwrap(), 1);
                    } else if let Some(sid) = s["id"].as_u64().and_then(|m| self.ids.get(&m).copied()) {
                        self.reply(sid, true);
                    }
                }
                "fail" => {
                    if s["rem"] != true {
                        if let Some(sid) = s["id"].as_u64().and_then(|m| self.ids.get(&m).copied()) {
                            self.reply(sid, false);
                        }
                    }
                }
                "expire" => self.expire(q.unwrap(), 1),
                _ => continue, // ropen (takes effect when opened), drop (substreams are not held by the script)
            }
            self.compare(s);
        }
        self.epilogue();
    }

    fn run_random(&mut self, rng: &mut StdRng, len: usize) {
        self.establish();
        for _ in 0..len {
            let q = rng.gen_range(0..NAMES.len());
            let c = self.conns[rng.gen_range(0..self.conns.len())];
            match rng.gen_range(0..100) {
                0..=4 if self.conns.len() < 2 => self.establish(),
                5..=24 => self.open(q, None),
                25..=36 if KA[q] => self.clog(q),
                37..=54 => {
                    if let Some(sid) = self.pending.keys().copied().nth(rng.gen_range(0..self.pending.len().max(1))) {
                        self.reply(sid, rng.gen_bool(0.6));
                    }
                }
                55..=64 => self.inbound(q, c),
                _ => self.expire(q, c),
            }
        }
        self.epilogue();
    }
}

fn main() {
    let args = Args::parse();
    quiet_panics();
    let out = args.str("out", "trace.ndjson");
    let seed = args.u64("seed", 1);
    let nrand = args.u64("random", 0);
    let rlen = args.u64("len", 40) as usize;
    let behs = args.get("behaviours").map(read_jsonl).unwrap_or_default();
    let rt = tokio::runtime::Builder::new_current_thread().enable_all().build().unwrap();
    let _g = rt.enter();
    let mut lines: Vec<String> = vec![];
    let (mut n, mut events, mut clogs, mut drift, mut panics) = (0usize, 0usize, 0usize, 0usize, 0usize);
    let mut drift_samples: Vec<String> = vec![];
    let mut run = |kind: &str, idx: usize, f: &mut dyn FnMut(&mut World)| {
        let mut w = World::new();
        let r = catch(|| f(&mut w));
        lines.push(json!({"e": "reset", "kind": kind, "i": idx}).to_string());
        events += w.out.len();
        lines.append(&mut w.out);
        clogs += w.clogs_effective;
        drift += w.drift.len();
        for d in w.drift.iter().filter(|d| !d.is_empty()) {
            if drift_samples.len() < 5 {
                drift_samples.push(d.clone());
            }
        }
        if r.is_err() {
            panics += 1;
        }
        n += 1;
    };
    for (i, b) in behs.iter().enumerate() {
        let stims = b["stims"].as_array().cloned().unwrap_or_default();
        run("tlc", i, &mut |w| w.run_model(&stims));
    }
    let mut rng = StdRng::seed_from_u64(seed);
    for i in 0..nrand as usize {
        let mut r2 = StdRng::seed_from_u64(rng.gen());
        run("random", i, &mut |w| w.run_random(&mut r2, rlen));
    }
    write_lines(&out, &lines);
    println!("SUMMARY {}", json!({"executions": n, "events": events, "clogged_opens": clogs, "model_projection_mismatches": drift, "drift_samples": drift_samples, "panics": panics}));
}
