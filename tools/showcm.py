#!/usr/bin/env python3
"""Pretty-print connmgr trace lines: showcm.py file from to"""
import sys, json
f, a, b = sys.argv[1], int(sys.argv[2]), int(sys.argv[3])
for i, l in enumerate(open(f), 1):
    if i < a or i > b: continue
    d = json.loads(l)
    if d['e'] == 'step':
        print(i, d['s'], d['ret'], 'calls', [(c['c'], c['cid'], c.get('addrs')) for c in d['calls']], 'ev', d['events'], {k: v for k, v in d['view'].items() if v['k'] != 'disc' or v['dial'] != -1}, 'pend', d['pend'], d['lim'], 'PANIC' if d['panic'] else '')
    else:
        print(i, d)
