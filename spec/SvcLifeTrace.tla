---------------------------- MODULE SvcLifeTrace ----------------------------
(* Trace validation of executions of the real TransportService / ProtocolSet *)
(* (harness bin `svc`).                                                      *)
(*  MODE=prop : every recorded step is fed to the property monitor of        *)
(*              SvcLife.tla (decides C08); a broken rule is printed as       *)
(*              <<"BAD", line, rule>>, forgiven, and validation continues.   *)
(*  MODE=impl : every recorded step must be exactly the step the             *)
(*              implementation-shaped model SvcLifeMC takes, with the same   *)
(*              result and the same projected state (drift check only).      *)
EXTENDS SvcLifeMC, IOUtils

Rec == ndJsonDeserialize(IOEnv.TRACE)
Mode == IOEnv.MODE

VARIABLE l
tvars == <<vars, l>>

Fresh(ka) ==
  /\ cst' = <<>> /\ cpeer' = <<>> /\ cmdq' = <<>> /\ pend' = <<>>
  /\ chan' = [q \in Svc |-> <<>>]
  /\ conns' = [q \in Svc |-> [p \in Peers |-> NoCtx]]
  /\ track' = [q \in Svc |-> {}]
  /\ nextId' = 0 /\ dead' = FALSE /\ mgr' = {}
  /\ cnt' = [opens |-> 0, inb |-> 0, fc |-> 0, exp |-> 0, full |-> 0]
  /\ blk' = <<>> /\ deadq' = {}
  /\ KA' = ka
  /\ mon' = MonInit /\ hist' = <<>> /\ out' = [ret |-> [k |-> "none"], panic |-> FALSE]

TInit == /\ l = 1
         /\ cst = <<>> /\ cpeer = <<>> /\ cmdq = <<>> /\ pend = <<>>
         /\ chan = [q \in Svc |-> <<>>]
         /\ conns = [q \in Svc |-> [p \in Peers |-> NoCtx]]
         /\ track = [q \in Svc |-> {}]
         /\ nextId = 0 /\ dead = FALSE /\ mgr = {}
         /\ cnt = [opens |-> 0, inb |-> 0, fc |-> 0, exp |-> 0, full |-> 0]
         /\ blk = <<>> /\ deadq = {}
         /\ KA = [q \in Svc |-> q = 0]
         /\ mon = MonInit /\ hist = <<>> /\ out = [ret |-> [k |-> "none"], panic |-> FALSE]

TReset == /\ Rec[l].e = "reset"
          /\ Fresh([q \in Svc |-> Rec[l].ka[q + 1]])

\* results the bounded model never produces but a recorded run may contain (no state change)
Idle(s, ret) ==
  /\ UNCHANGED mvars
  /\ Handle(s, ret, FALSE)

ImplAct(s, r) ==
  CASE s.a = "est" -> Est(s.p, s.full)
    [] s.a = "dropproto" -> DropProto(s.q)
    [] s.a = "close" -> Close(s.c, s.clog)
    [] s.a = "drop" -> Drop(s.c)
    [] s.a = "poll" -> IF chan[s.q] = <<>> THEN Idle(s, [k |-> "pending"]) ELSE Poll(s.q)
    [] s.a = "open" -> Open(s.q, s.p)
    [] s.a = "cmd" -> IF s.c \in DOMAIN cst /\ cst[s.c] = "live" /\ cmdq[s.c] = <<>> /\ Strong(s.c) > 0
                        THEN Idle(s, [k |-> "pending"]) ELSE Cmd(s.c)
    [] s.a = "reply" -> \E x \in pend[s.c] : x.id = s.id /\ Reply(s.c, x, s.ok, s.full)
    [] s.a = "inbound" -> Inbound(s.c, s.q, s.full)
    [] s.a = "slot" -> \E x \in pend[s.c] : x.id = s.id /\ Slot(s.c, x)
    [] s.a = "deliver" -> IF Busy(s.c) /\ blk[s.c].q \notin deadq /\ PhysLen(blk[s.c].q) >= PCap THEN Idle(s, [k |-> "blocked"]) ELSE Deliver(s.c)
    [] s.a = "fclose" -> IF conns[s.q][s.p].pri = 0 THEN Idle(s, [k |-> "err"]) ELSE FClose(s.q, s.p)
    [] s.a = "expire" -> IF <<s.p, s.c>> \notin track[s.q] THEN Idle(s, [k |-> "untracked"]) ELSE Expire(s.q, s.p, s.c)

SameEv(a, b) ==
  /\ a.k = b.k
  /\ (a.k = "est" => a.p = b.p /\ a.c = b.c /\ a.dir = b.dir)
  /\ (a.k = "closed" => a.p = b.p)
  /\ (a.k = "opened" => a.p = b.p /\ a.q = b.q /\ a.dirn = b.dirn /\ a.id = b.id)
  /\ (a.k = "failed" => a.id = b.id)

SameRet(s, a, b) ==
  CASE s.a = "poll" -> SameEv(a, b)
    [] s.a = "expire" -> a.k = b.k /\ (a.k = "ok" => SameEv(a.pev, b.pev))
    [] s.a = "open" -> a.k = b.k /\ (a.k = "ok" => a.id = b.id) /\ (a.k = "err" => a.err = b.err)
    [] s.a = "cmd" -> a.k = b.k /\ (a.k = "open" => a.q = b.q /\ a.id = b.id /\ a.cc = b.cc)
    [] s.a = "close" -> a.k = b.k /\ a.early = b.early /\ a.mgr = b.mgr /\ a.told = b.told
    [] s.a = "drop" -> a.k = b.k /\ a.unread = b.unread
    [] OTHER -> a.k = b.k

TStepImpl ==
  LET r == Rec[l] IN
  IF r.panic THEN
       \* the model must panic at the same step
       /\ ImplAct(r.s, r) /\ out'.panic
  ELSE
       /\ ImplAct(r.s, r)
       /\ ~out'.panic
       /\ SameRet(r.s, out'.ret, r.ret)
       /\ \A q \in Svc \ deadq' :
            /\ \A p \in Peers : conns'[q][p] = r.view.conns[q + 1][p]
            /\ Len(SelectSeq(chan'[q], LAMBDA e : e.k # "filler")) = r.view.inbox[q + 1]
            /\ track'[q] = {<<r.view.track[q + 1][i][1], r.view.track[q + 1][i][2]>> : i \in 1..Len(r.view.track[q + 1])}
       /\ nextId' = r.view.next
       /\ deadq' = {r.view.deadq[i] : i \in 1..Len(r.view.deadq)}
       /\ {c \in DOMAIN blk' : blk'[c].k # "none"} = {r.view.blk[i] : i \in 1..Len(r.view.blk)}

TStepProp ==
  LET r == Rec[l] IN
  /\ LET m == IF r.s.a \in {"nev", "nopen", "nterm"} THEN NetStep(mon, r.s, r.ret, r.panic)
                                                         ELSE MonStep(mon, r.s, r.ret, r.panic) IN
       /\ mon' = Forgive(m)
       /\ (m.bad # "" => PrintT(<<"BAD", l, m.bad>>))
  /\ UNCHANGED <<mvars, hist, out>>

TQuiesce ==
  /\ Rec[l].e = "quiesce"
  /\ IF Mode = "impl" THEN Quiescent /\ UNCHANGED vars
     ELSE /\ LET m == MonQuiesce(mon) IN
               /\ mon' = Forgive(m)
               /\ (m.bad # "" => PrintT(<<"BAD", l, m.bad>>))
          /\ UNCHANGED <<mvars, hist, out>>

TNetQuiesce ==
  /\ Rec[l].e = "nquiesce"
  /\ LET m == NetQuiesce(mon) IN
       /\ mon' = Forgive(m)
       /\ (m.bad # "" => PrintT(<<"BAD", l, m.bad>>))
  /\ UNCHANGED <<mvars, hist, out>>

TNext == /\ l <= Len(Rec)
         /\ l' = l + 1
         /\ \/ TReset
            \/ (Rec[l].e = "step" /\ IF Mode = "impl" THEN TStepImpl ELSE TStepProp)
            \/ TQuiesce
            \/ TNetQuiesce

TSpec == TInit /\ [][TNext]_tvars

Accepted ==
  LET d == TLCGet("stats").diameter IN
  IF d - 1 = Len(Rec) THEN PrintT(<<"TRACE_OK", Len(Rec)>>)
  ELSE PrintT(<<"TRACE_REJECTED_AT", d>>) /\ FALSE
=============================================================================
