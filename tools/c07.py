"""C07 - a terminated connection is reported closed to everyone exactly once.

Pipeline: TLC checks the implementation-shaped model ConnLifeNetMC (manager loop, connection task incl.
its error exits, protocol loops over bounded channels, a protocol that shuts down) against the monitor of
ConnLifeNet.tla; TLC simulation supplies stimulus schedules; the harness bin `connlife` runs those and a
hand-written scenario catalogue on real two-node litep2p networks over loopback TCP, WebSocket (byte proxy
in between) and QUIC (no proxy), under a schedule-perturbing executor, and TLC validates every recorded execution against the monitor."""
import json
import os
import random
from vlib import *

ASSUME = [
    "observations are ordered by the position at which they were recorded in one per-scenario log; rules only use "
    "'recorded before the driver began ...' and deadlines: a report that is missing 10 s after every TCP stream between "
    "the nodes is gone counts as never made (typical latency is < 50 ms; scenarios whose scheduling-latency probe saw "
    "> 1.5 s are re-run, never judged)",
    "tcp and ws run through the byte proxy (it tells when a stream is gone and which side ended it); quic runs without "
    "proxy: the connection counts as gone when one node reported it closed or a node was killed (a node that ends a "
    "QUIC connection closes it explicitly, quinn's idle timeout of 5 s is the backstop); steps that need the proxy (cut, "
    "stall, cut after N bytes, simultaneous dials) are not run on quic (listed in coverage.not_run_without_proxy)",
    "all dials are issued by the scenario driver (no discovery protocols), so 'no new connection' phases are known",
    "protocol channels hold 4096 events: really full channels are explored in the TLC model (capacity 1-2); on real "
    "nodes a protocol that stops polling its TransportService stands in for it",
    "TLC bounds: 1 peer, up to 3 connection ids (2 overlapping), 2 protocols + 1 that shuts down, channel capacity 1-2, "
    "3-5 environment stimuli per behaviour",
]

MC_LINES = ["SPECIFICATION Spec", "INVARIANTS MonOK QuiesceOK RedialOK ServicesOK NoKf ClosedOnceRaw", "PROPERTY ProtocolsBeforeManager",
            "VIEW View", "CHECK_DEADLOCK FALSE"]
BASE = {"Sim": True, "Q": {"q1", "q2"}, "QD": {"q3"}, "MaxCid": 2, "Cap": 1, "MCap": 1, "MaxStim": 3, "MaxSub": 1,
        "Fixed": "<- AllFix", "Mutant": ""}
NOFIX = "<- NoFix"

# reason -> short tag used in signatures
SILENT = ("silence: application never told that the connection closed", "silence: running protocol never told that the connection closed")
NEWCONN = ("new connection not reported to the application", "new connection not reported to a running protocol")


def mc_runs(ctx):
    """the model follows the repaired code (Fixed = AllFix): no defect path exists (NoKf) and every rule holds"""
    if ctx.quick():
        runs = [("dead", dict(BASE, Q={"q1"}, MaxCid=3, MaxStim=3, Cap=2)),
                ("two", dict(BASE, QD=set(), MaxCid=3, MaxStim=4)),
                ("dead2", dict(BASE, Q={"q1"}, MaxCid=2, MaxStim=4))]
    else:
        runs = [("dead", dict(BASE, Q={"q1"}, MaxCid=3, MaxStim=5, Cap=2)),
                ("two", dict(BASE, QD=set(), MaxCid=3, MaxStim=5)),
                ("full", dict(BASE, MaxCid=2, MaxStim=4))]
    out = []
    for name, consts in runs:
        r = tlc_mc(ctx, "ConnLifeNetMC.tla", write_cfg(ctx, "mc_%s.cfg" % name, consts, MC_LINES), workers=6 if ctx.quick() else 10, timeout=2400)
        if not r["ok"]:
            raise ToolError("ConnLifeNetMC violates a C07 rule in config %s (model error or design finding to be replayed, "
                            "never a code verdict):\n%s" % (name, r.get("error", r["out"][-3000:])))
        out.append(dict({k: r[k] for k in ("transitions", "distinct", "depth", "wall_s") if k in r}, cfg=name))
        log("MC %s: %s" % (name, out[-1]))
    return out


def generate(ctx, n):
    """stimulus schedules from TLC simulation of the model (maximal ones only)"""
    consts = dict(BASE, MaxCid=3, MaxStim=6, MaxSub=2, Cap=2)
    cfg = write_cfg(ctx, "gen.cfg", consts, ["SPECIFICATION Spec", "ACTION_CONSTRAINT Emit", "CHECK_DEADLOCK FALSE"])
    behs, st = tlc_generate(ctx, "ConnLifeNetMC.tla", cfg, timeout=600, simulate={"num": n, "depth": 90})
    seqs = sorted({json.dumps(b["stims"]) for b in behs if b["stims"]})
    # keep behaviours that are not a proper prefix of another one
    keep = [s for i, s in enumerate(seqs) if not (i + 1 < len(seqs) and seqs[i + 1].startswith(s[:-1] + ","))]
    st["schedules"] = len(keep)
    return [json.loads(s) for s in keep], st


def to_steps(stims, transport="tcp"):
    """model stimuli -> driver steps.  An `open` of protocol q whose `drop` comes before its recorded outcome becomes
    `open_exit` (the protocol requests a substream and shuts down at once); a failing outcome is provoked by stalling
    the byte stream until the substream-open timeout (tcp / ws; without proxy the open simply succeeds)."""
    steps, conns, cid, nconn, skip = [], {}, 0, 0, set()
    proxy = transport != "quic"
    end = [{"op": "cut"}] if proxy else [{"op": "force_close", "n": "B", "q": "q1"}]
    for i, s in enumerate(stims):
        a = s["a"]
        if i in skip or a in ("outcome", "idle"):
            continue
        if a == "connect":
            cid += 1
            frm = "A" if nconn % 2 == 0 else "B"
            nconn += 1
            conns[cid] = "ab" if frm == "A" else "ba"
            steps.append({"op": "connect", "from": frm, "expect": True})
        elif a == "connect2":
            conns[cid + 1], conns[cid + 2] = "ab", "ba"
            cid += 2
            steps.append({"op": "connect2", "expect": True} if proxy else {"op": "connect", "from": "A", "expect": True})
        elif a == "cut":
            steps += [{"op": "cut", "px": conns.get(s["c"], "both")}] if proxy else end
        elif a == "fc":
            steps += [{"op": "force_close", "n": "A", "q": s["q"]}, {"op": "sleep", "ms": 200}]
        elif a == "open":
            q = s["q"]
            out = next((j for j in range(i + 1, len(stims)) if stims[j]["a"] == "outcome" and stims[j]["q"] == q and stims[j]["dir"] == "out"), None)
            drp = next((j for j in range(i + 1, len(stims)) if stims[j]["a"] == "drop" and stims[j]["q"] == q), None)
            if drp is not None and (out is None or drp < out):
                skip.add(drp)
                if out is not None and not stims[out]["ok"] and proxy:
                    steps += [{"op": "stall"}, {"op": "open_exit", "n": "A", "q": q}, {"op": "sleep", "ms": 900}, {"op": "unstall"}, {"op": "sleep", "ms": 150}]
                else:
                    steps += [{"op": "open_exit", "n": "A", "q": q}, {"op": "sleep", "ms": 200}]
            else:
                steps.append({"op": "open", "n": "A", "q": q})
        elif a == "rsub":
            steps += [{"op": "open", "n": "B", "q": s["q"], "mode": "fire"}, {"op": "sleep", "ms": 200}]
        elif a == "drop":
            steps.append({"op": "drop_proto", "n": "A", "q": s["q"]})
        elif a == "proof":
            steps.append({"op": "open", "n": "B", "q": "q1"})
        elif a == "quiesce":
            steps += end + [{"op": "quiesce"}]
        elif a == "redial":
            steps.append({"op": "redial", "n": "A", "expect": True})
    real = [s for s in stims if s["a"] not in ("outcome", "idle")]
    if not real or real[-1]["a"] not in ("quiesce", "redial"):
        steps += end + [{"op": "quiesce"}, {"op": "redial", "n": "A", "expect": True}]
    if real and real[-1]["a"] == "quiesce":
        steps.append({"op": "redial", "n": "A", "expect": True})
    return steps


def catalogue(ctx):
    """hand-written scenario families; (name, A cfg, B cfg, steps)"""
    Q3 = {"q3": True}
    c, cut, qs = {"op": "connect", "from": "A"}, {"op": "cut"}, {"op": "quiesce"}
    cb = {"op": "connect", "from": "B"}
    rd = lambda n, **k: dict({"op": "redial", "n": n}, **k)
    op = lambda n, q, **k: dict({"op": "open", "n": n, "q": q}, **k)
    sl = lambda ms: {"op": "sleep", "ms": ms}
    S = []
    # network cut, idle / after traffic, cycles
    S.append(("cut-cycle", Q3, Q3, [c, op("A", "q1"), cut, qs, rd("A"), op("B", "q2"), cut, qs, rd("B"), op("A", "q3"), cut, qs]))
    S.append(("cut-cycle-b", {}, {}, [cb, cut, qs, rd("A"), cut, qs, rd("A"), cut, qs, rd("B"), op("B", "q1"), cut, qs]))
    # remote crash
    S.append(("kill-remote", {}, {}, [c, op("A", "q1", mode="hold"), {"op": "kill", "n": "B"}, qs, rd("A")]))
    S.append(("kill-remote-b", Q3, Q3, [cb, {"op": "kill", "n": "B"}, qs, rd("A")]))
    # the remote crashes the moment it has the connection: shortest-lived established connections
    S.append(("kill-on-est", {}, {}, [dict(c, kill_on_est="B"), qs, rd("A")]))
    S.append(("kill-on-est-b", Q3, Q3, [dict(cb, kill_on_est="B"), qs, rd("A")]))
    # force close, by either protocol, either direction, with a held substream of another protocol
    S.append(("force-close", {}, {}, [c, op("A", "q1", mode="hold"), {"op": "force_close", "n": "A", "q": "q2"}, qs, rd("A"), op("A", "q2"), cut, qs]))
    S.append(("force-close-b", Q3, Q3, [cb, op("B", "q3", mode="hold"), {"op": "force_close", "n": "A", "q": "q1"}, qs, rd("B"), cut, qs]))
    # idle expiry on A (B's timeout is long); with and without ping/identify
    KA = {"ka_ms": 300}
    S.append(("keepalive", KA, {}, [c, {"op": "wait_dead"}, qs, rd("A"), {"op": "wait_dead"}, qs]))
    S.append(("keepalive-pi", dict(KA, ping_ms=100, identify=True), {"ping_ms": 100, "identify": True}, [cb, {"op": "wait_dead"}, qs, rd("A"), {"op": "wait_dead"}, qs]))
    PI = {"ping_ms": 100, "identify": True}
    S.append(("keepalive-pi-a", dict(KA, **PI), PI, [c, {"op": "wait_dead"}, qs, op("B", "q1"), rd("B"), op("B", "q2"), {"op": "wait_dead"}, qs]))
    S.append(("force-close-pi", PI, PI, [cb, {"op": "force_close", "n": "A", "q": "q1"}, qs, rd("B"), op("B", "q1"), {"op": "force_close", "n": "B", "q": "q2"}, qs]))
    S.append(("keepalive-after-use", KA, {}, [c, op("A", "q1"), op("B", "q2"), {"op": "wait_dead"}, qs, rd("B"), {"op": "wait_dead"}, qs]))
    # an inbound substream arriving right when A's idle timers expire (permit unavailable race)
    for off in (-12, -4, 0, 4, 10, 18, 30):
        S.append(("keepalive-race%+d" % off, dict(KA, perturb=3), {}, [c, sl(300 - 70 + off), op("B", "q1", mode="fire"), {"op": "wait_dead"}, qs, rd("A")]))
    # two overlapping connections from simultaneous dials
    S.append(("sim-cut-one", {}, {}, [{"op": "connect2"}, {"op": "cut", "which": "one"}, sl(400), op("A", "q1"), op("B", "q2"), cut, qs, rd("A"), cut, qs]))
    S.append(("sim-cut-both", Q3, Q3, [{"op": "connect2"}, op("B", "q1"), cut, qs, rd("B"), cut, qs]))
    S.append(("sim-force-close", {}, {}, [{"op": "connect2"}, {"op": "force_close", "n": "A", "q": "q1"}, qs, rd("A"), cut, qs]))
    S.append(("sim-kill", {}, {}, [{"op": "connect2"}, {"op": "kill", "n": "B"}, qs, rd("A")]))
    S.append(("sim-keepalive", {"ka_ms": 900}, {"ka_ms": 900}, [{"op": "connect2"}, {"op": "wait_dead"}, qs, rd("A"), {"op": "wait_dead"}, qs]))
    # cut while substream opens are pending / being negotiated
    S.append(("cut-pending-opens", {}, {}, [c, {"op": "stall"}, op("A", "q1", mode="fire"), op("A", "q2", mode="fire"), op("B", "q1", mode="fire"), sl(100), cut, qs, rd("A"), cut, qs]))
    S.append(("open-timeout-then-cut", {"sub_timeout_ms": 500}, {"sub_timeout_ms": 500}, [c, {"op": "stall"}, op("A", "q1", mode="fire"), op("B", "q2", mode="fire"), sl(900), {"op": "unstall"}, sl(100), op("A", "q2"), cut, qs, rd("A"), cut, qs]))
    # a protocol that does not poll its TransportService while connections come and go
    S.append(("paused-protocol", {}, {}, [c, {"op": "pause", "n": "A", "q": "q2"}, cut, sl(300), rd("A"), op("A", "q1"), cut, sl(200), rd("B"), op("B", "q1"), cut, qs]))
    # local protocol shut down: existing connection stays usable and its end is reported
    S.append(("drop-then-use-then-cut", Q3, Q3, [c, {"op": "drop_proto", "n": "A", "q": "q3"}, op("A", "q1"), op("B", "q2"), cut, qs]))
    S.append(("drop-then-force-close", Q3, Q3, [cb, {"op": "drop_proto", "n": "A", "q": "q3"}, {"op": "force_close", "n": "A", "q": "q1"}, qs]))
    S.append(("drop-then-keepalive", dict(Q3, **KA), Q3, [c, {"op": "drop_proto", "n": "A", "q": "q3"}, {"op": "wait_dead"}, qs]))
    # ... (a) the remote opens a substream for the protocol that is gone
    S.append(("drop-then-inbound-substream", Q3, Q3, [c, {"op": "drop_proto", "n": "A", "q": "q3"}, op("A", "q1"), op("B", "q3", mode="fire"), sl(300), cut, qs, rd("A", expect=True)]))
    S.append(("drop-then-inbound-substream-b", Q3, Q3, [cb, {"op": "drop_proto", "n": "A", "q": "q3"}, op("B", "q3", mode="fire"), sl(300), cut, qs, rd("B", expect=True)]))
    # ... (b) a new connection after the protocol is gone
    S.append(("drop-then-new-connection", Q3, Q3, [{"op": "drop_proto", "n": "A", "q": "q3"}, dict(cb, expect=True), sl(200), cut, qs]))
    S.append(("drop-then-new-connection-a", Q3, Q3, [{"op": "drop_proto", "n": "A", "q": "q3"}, dict(c, expect=True), sl(200), cut, qs]))
    S.append(("drop-cut-then-redial", Q3, Q3, [c, {"op": "drop_proto", "n": "A", "q": "q3"}, cut, qs, rd("A", expect=True), sl(200), cut, qs]))
    # ... (c) the protocol itself requested a substream: outcome {negotiated, refused by the remote (it does not speak
    # the protocol), timeout} x the protocol shuts down {before, after} the outcome; afterwards the connection must
    # still be usable, its end must be reported and the peer must be dialable again
    oe = {"op": "open_exit", "n": "A", "q": "q3"}
    tail = [op("A", "q1"), op("B", "q2"), cut, qs, rd("A", expect=True), op("B", "q1"), cut, qs]
    T5 = {"sub_timeout_ms": 500}
    S.append(("open-exit-negotiated", Q3, Q3, [c, oe, sl(300)] + tail))
    S.append(("open-exit-negotiated-b", Q3, Q3, [cb, oe, sl(300)] + tail))
    S.append(("open-exit-refused", Q3, {}, [c, oe, sl(300)] + tail))
    S.append(("open-exit-refused-b", Q3, {}, [cb, oe, sl(300)] + tail))
    S.append(("open-exit-timeout", dict(Q3, **T5), dict(Q3, **T5), [c, {"op": "stall"}, oe, sl(900), {"op": "unstall"}, sl(150)] + tail))
    S.append(("open-exit-timeout-b", dict(Q3, **T5), dict(Q3, **T5), [cb, {"op": "stall"}, oe, sl(900), {"op": "unstall"}, sl(150)] + tail))
    S.append(("open-negotiated-then-exit", Q3, Q3, [c, op("A", "q3"), {"op": "drop_proto", "n": "A", "q": "q3"}] + tail))
    S.append(("open-refused-then-exit", Q3, {}, [cb, op("A", "q3"), {"op": "drop_proto", "n": "A", "q": "q3"}] + tail))
    S.append(("open-timeout-then-exit", dict(Q3, **T5), dict(Q3, **T5), [c, {"op": "stall"}, op("A", "q3", mode="fire"), sl(900), {"op": "unstall"}, sl(150), {"op": "drop_proto", "n": "A", "q": "q3"}] + tail))
    return S


NEEDS_PROXY = ("stall", "unstall", "connect2")
# catalogue subset run on ws / quic in the quick tier: connection termination + protocol shut-down
SUBSET = ("cut-cycle", "kill-remote", "kill-on-est", "force-close", "keepalive", "drop-", "open-")


def adapt(steps, transport):
    """steps for a transport; None if the scenario needs the byte proxy (quic runs without one: the remote closes the
    connection with force_close where tcp / ws cut the byte stream)"""
    if transport != "quic":
        return steps
    if any(st["op"] in NEEDS_PROXY or "cut_at" in st or st.get("which") for st in steps):
        return None
    return [{"op": "force_close", "n": "B", "q": "q1"} if st["op"] == "cut" else st for st in steps]


def cut_sweep(ctx, rnd):
    """short-lived connections: the proxy cuts after N forwarded bytes, N around the end of the handshake
    (noise+yamux negotiation is ~700 bytes in total), from either side"""
    S = []
    pts = list(range(560, 760, 8 if ctx.quick() else 2)) + [300, 450, 800, 900, 1100]
    for n in pts:
        frm = "A" if n % 4 < 2 else "B"
        S.append(("cut-at-%d" % n, {}, {}, [{"op": "connect", "from": frm, "cut_at": n}, {"op": "cut"}, {"op": "quiesce"}, {"op": "redial", "n": "A"}, {"op": "cut"}, {"op": "quiesce"}]))
    return S


TRANSPORTS = ("tcp", "ws", "quic")


def scenarios(ctx, gen):
    """tcp: the full catalogue, the cut sweep and every TLC schedule; ws / quic: in the quick tier the subset around
    connection termination and protocol shut-down plus a sample of TLC schedules, in the thorough tier everything
    that does not need the proxy (quic) / everything (ws)"""
    rnd = random.Random(ctx.seed)
    out, skipped = [], {}
    for tr in TRANSPORTS:
        full = tr == "tcp" or not ctx.quick()
        reps = (3 if ctx.quick() else 8) if tr == "tcp" else (1 if ctx.quick() else 4)
        for name, a, b, steps in catalogue(ctx):
            if not full and not name.startswith(SUBSET):
                continue
            st = adapt(steps, tr)
            if st is None:
                skipped.setdefault(tr, []).append(name)
                continue
            race = "race" in name
            for r in range(reps * ((2 if ctx.quick() else 6) if race else 1)):
                lvl = 3 if race else r % 4
                out.append({"name": name, "transport": tr, "seed": rnd.randrange(1 << 30), "A": dict({"perturb": lvl}, **a),
                            "B": dict({"perturb": (r // 2) % 3}, **b), "steps": st})
        if tr != "quic" and full:
            for name, a, b, steps in cut_sweep(ctx, rnd):
                for r in range(1 if ctx.quick() else (3 if tr == "tcp" else 1)):
                    out.append({"name": name, "transport": tr, "seed": rnd.randrange(1 << 30), "A": {"perturb": 2 + r % 2}, "B": {"perturb": r % 3}, "steps": steps})
        elif tr == "quic":
            skipped.setdefault(tr, []).append("cut-at-*")
        pick = list(enumerate(gen)) if full else rnd.sample(list(enumerate(gen)), min(len(gen), 20))
        for i, st in pick:
            out.append({"name": "tlc-%d" % i, "transport": tr, "seed": rnd.randrange(1 << 30), "A": {"q3": True, "perturb": i % 3, "sub_timeout_ms": 500},
                        "B": {"q3": True, "perturb": (i // 3) % 2, "sub_timeout_ms": 500}, "steps": to_steps(st, tr), "stims": st})
    rnd.shuffle(out)
    return out, skipped


# ------------------------------------------------------------------ unit level: the exits of the real connection task

UNIT_EXITS = ("idle", "no-permit", "remote-close", "force-close", "opened-report-to-dead-protocol-inbound",
              "opened-report-to-dead-protocol-outbound", "open-failure-report-to-dead-protocol-refused",
              "open-failure-report-to-dead-protocol-timeout")


def generate_unit(ctx, n):
    """schedules of the connection-task part of ConnLifeNetMC: one connection, all three protocols, up to 2 substreams"""
    consts = dict(BASE, Sim=False, MaxCid=1, MaxStim=5, MaxSub=2, Cap=2)
    cfg = write_cfg(ctx, "genu.cfg", consts, ["SPECIFICATION Spec", "ACTION_CONSTRAINT Emit", "CHECK_DEADLOCK FALSE"])
    behs, st = tlc_generate(ctx, "ConnLifeNetMC.tla", cfg, timeout=600, simulate={"num": n, "depth": 70})
    seqs = sorted({json.dumps(b["stims"]) for b in behs if b["stims"]})
    keep = [s for i, s in enumerate(seqs) if not (i + 1 < len(seqs) and seqs[i + 1].startswith(s[:-1] + ","))]
    st["schedules"] = len(keep)
    return [json.loads(s) for s in keep], {k: st[k] for k in st if k != "out"}


def unit_round(exit_, pending, dropped):
    """steps of one round of the connection harness (protocols q1..q3 = index 0..2)"""
    run = lambda ms=30, **k: dict({"op": "run", "ms": ms}, **k)
    st = []
    if dropped:
        st.append({"op": "drop", "q": 1})
    if pending == "inbound":            # an inbound substream whose negotiation never finishes (holds a permit until the timeout)
        st += [{"op": "ropen", "q": 0, "stall": True}, run()]
    elif pending == "outbound":         # an outbound open the remote never answers
        st += [{"op": "remote", "supported": [0, 1, 2], "stall": True}, {"op": "open", "q": 0}, run(), {"op": "remote", "supported": [0, 1, 2], "stall": False}]
    if exit_ == "idle":
        st += [{"op": "release", "q": "all"}]
    elif exit_ == "no-permit":          # every handle released and an inbound substream already at the socket at the next poll
        st += [{"op": "release", "q": "all"}, {"op": "ropen", "q": 0, "stall": False}, {"op": "sleep", "ms": 30}]
    elif exit_ == "remote-close":
        st += [{"op": "rclose"}]
    elif exit_ == "force-close":
        st += [{"op": "fc", "q": 0}]
    elif exit_ == "opened-report-to-dead-protocol-inbound":
        st += [{"op": "drop", "q": 2}, {"op": "ropen", "q": 2, "stall": False}, run(150), {"op": "rclose"}]
    elif exit_ == "opened-report-to-dead-protocol-outbound":
        st += [{"op": "open", "q": 2}, {"op": "drop", "q": 2}, run(150), {"op": "rclose"}]
    elif exit_ == "open-failure-report-to-dead-protocol-refused":
        st += [{"op": "remote", "supported": [0, 1], "stall": False}, {"op": "open", "q": 2}, {"op": "drop", "q": 2}, run(150), {"op": "rclose"}]
    elif exit_ == "open-failure-report-to-dead-protocol-timeout":
        st += [{"op": "remote", "supported": [0, 1, 2], "stall": True}, {"op": "open", "q": 2}, {"op": "drop", "q": 2}, run(500), {"op": "rclose"}]
    st.append({"op": "finish"})
    return st


def unit_from_model(stims, eager):
    """a ConnLifeNetMC schedule restricted to its first connection -> connection-harness steps; `eager`: the task is
    polled after every stimulus, otherwise only where the model recorded an outcome and at the end (so that e.g. released
    handles and an inbound substream are both ready at the first poll)"""
    qi = {"q1": 0, "q2": 1, "q3": 2}
    st, seen_connect = [], False
    for i, s in enumerate(stims):
        a = s["a"]
        if a in ("connect", "connect2"):
            if seen_connect:
                break
            seen_connect = True
            continue
        if not seen_connect:
            if a == "drop":
                st.append({"op": "drop", "q": qi[s["q"]]})
            continue
        if a == "open":
            out = next((x for x in stims[i + 1:] if x["a"] == "outcome" and x["q"] == s["q"] and x["dir"] == "out"), None)
            sup = [0, 1, 2] if out is None or out["ok"] else [q for q in (0, 1, 2) if q != qi[s["q"]]]
            st += [{"op": "remote", "supported": sup, "stall": False}, {"op": "open", "q": qi[s["q"]]}]
        elif a == "rsub":
            out = next((x for x in stims[i + 1:] if x["a"] == "outcome" and x["q"] == s["q"] and x["dir"] == "in"), None)
            st += [{"op": "ropen", "q": qi[s["q"]], "stall": out is not None and not out["ok"]}, {"op": "sleep", "ms": 20}]
        elif a == "drop":
            st.append({"op": "drop", "q": qi[s["q"]]})
        elif a == "fc":
            st.append({"op": "fc", "q": qi[s["q"]]})
        elif a == "idle":
            st.append({"op": "release", "q": "all"})
        elif a == "cut":
            st.append({"op": "rclose"})
        elif a == "outcome":
            st.append({"op": "run", "ms": 120 if s["ok"] else 450})
            continue
        elif a in ("quiesce", "redial"):
            break
        else:
            continue
        if eager:
            st.append({"op": "run", "ms": 20})
    if not seen_connect:
        return None
    if not any(x["op"] in ("rclose", "fc") or (x["op"] == "release") for x in st):
        st.append({"op": "rclose"})
    st.append({"op": "finish"})
    return st


def unit_part(ctx, gen):
    """every exit x {inbound substream pending, outbound open pending, nothing pending} x {all protocols alive, one dropped},
    16+ rounds each, plus the TLC schedules (lazy and eager polling), on the real TcpConnection::start()"""
    rnd = random.Random(ctx.seed + 7)
    rounds = []
    reps = 16 if ctx.quick() else 64
    for ex in UNIT_EXITS:
        for pending in ("none", "inbound", "outbound"):
            for dropped in (False, True):
                for r in range(reps):
                    rounds.append({"name": "unit-%s-%s-%s" % (ex, pending, "dropped" if dropped else "alive"), "exit": ex, "seed": rnd.randrange(1 << 30),
                                   "inbox": 16, "steps": unit_round(ex, pending, dropped)})
    # a full inbox while the connection ends: the closing sequence blocks on it and completes once it is read again
    for ex in ("idle", "remote-close", "force-close", "no-permit"):
        for r in range(reps):
            st = unit_round(ex, "none", False)
            st = [{"op": "fill", "q": 1}] + st
            rounds.append({"name": "unit-%s-full-inbox" % ex, "exit": ex, "seed": rnd.randrange(1 << 30), "inbox": 4, "steps": st})
    # the manager loop is stalled and its event channel (capacity 256) is full when the connection ends: the close
    # report must suspend (protocols already told) and arrive exactly once when the manager reads again
    for ex in UNIT_EXITS:
        for dropped in (False, True):
            for r in range(reps // 2):
                st = unit_round(ex, "none", dropped)
                assert st[-1]["op"] == "finish"
                st = [{"op": "mfill"}] + st[:-1] + [{"op": "run", "ms": 400 if "timeout" in ex else 150}, {"op": "munblock"}, st[-1]]
                rounds.append({"name": "unit-%s-manager-channel-full-%s" % (ex, "dropped" if dropped else "alive"), "exit": "manager-channel-full", "seed": rnd.randrange(1 << 30),
                               "inbox": 16, "manager_capacity": 256 if r % 2 == 0 else 1, "steps": st})
    nmodel = 0
    for i, stims in enumerate(gen):
        for eager in (False, True):
            st = unit_from_model(stims, eager)
            if st and len(st) > 2:
                nmodel += 1
                rounds.append({"name": "unit-tlc-%d-%s" % (i, "eager" if eager else "lazy"), "exit": "tlc", "seed": rnd.randrange(1 << 30), "inbox": 16, "steps": st, "stims": stims})
    write_jsonl(ctx.path("unit_sc.jsonl"), rounds)
    summ, _ = harness(ctx, "connunit", ["--scenarios", ctx.path("unit_sc.jsonl"), "--out", ctx.path("unit.ndjson"), "--par", 32, "--threads", 8], timeout=1800)
    log("UNIT: %s" % summ)
    if summ["rounds"] < 0.9 * len(rounds):
        raise ToolError("too many connection-harness rounds could not be set up: %s" % summ)
    lines = read_lines(ctx.path("unit.ndjson"))
    nseg, nev, rejects = validate_all(ctx, "ConnLifeNetTrace.tla", "ConnLifeNetTrace.cfg", lines, tag="u")
    viol = []
    for r in rejects:
        seg, idx = r
        if r.reason == "unconsumed":
            raise ToolError("unit trace line could not be consumed: %s" % seg[idx - 1][:300])
        head = json.loads(seg[0])
        evs = [json.loads(x) for x in seg[1:idx]]
        bad = evs[-1]
        twice = bad["e"] in ("p_closed", "app_closed") and any(e["e"] == bad["e"] and e.get("q") == bad.get("q") for e in evs[:-1])
        what = "closed-reported-twice" if twice else r.reason.replace(" ", "-").replace(":", "")
        if r.reason == SILENT[0] and bad["e"] == "quiesce":
            what = "manager-never-told-closed"
        sig = "%s@%s" % (what, head.get("exit", "?"))
        viol.append({"sig": sig, "what": "%s (real TcpConnection::start(), round %s) at %s" % (r.reason, head.get("sc"), seg[idx - 1][:300]),
                     "replay_obj": {"property": "C07", "level": "unit", "reason": r.reason, "signature": sig,
                                    "round": next((x for x in rounds if x["name"] == head.get("sc") and x["seed"] == head.get("seed")), None),
                                    "segment": [json.loads(x) for x in seg]}})
    return {"executions_validated": nseg, "events_validated": nev, "harness": summ, "rounds_from_model": nmodel}, viol


def classify(seg, idx, reason):
    """stable signature of a rejected execution: the broken rule plus the specific history that leads to it"""
    evs = [json.loads(x) for x in seg[:idx]]
    bad = evs[-1]
    n = bad.get("n", "?")
    mine = [e for e in evs if e.get("n") == n]
    dropped = [e for e in mine if e["e"] in ("p_exit", "p_none")]
    # an inbound substream for a protocol that shut down was requested by the remote after the drop
    fired_for_dropped = False
    for d in dropped:
        i = evs.index(d)
        fired_for_dropped |= any(e["e"] == "fire" and e.get("q") == d["q"] and e.get("n") != n and e.get("ret") == "ok" for e in evs[i:])
    # the node itself ended the TCP stream (not the harness, not the remote) after the remote had requested a substream
    last_est = max([i for i, e in enumerate(evs) if e["e"] == "app_est" and e.get("n") == n] or [0])
    my_side = "a" if evs[last_est].get("dir") == "out" else "b"
    self_closed = any(e["e"] == "px_dead" and e.get("why") == my_side for e in evs[last_est:])
    remote_fired = any(e["e"] == "fire" and e.get("n") != n and e.get("ret") == "ok" for e in evs[last_est:])
    ka_race = self_closed and remote_fired and not dropped
    tr = json.loads(seg[0]).get("transport", "tcp")
    sig = _classify(evs, seg, idx, reason, bad, n, mine, dropped, fired_for_dropped, ka_race or (tr == "quic" and remote_fired and not dropped and "keepalive-race" in evs[0].get("sc", "")))
    return sig if tr == "tcp" else "%s@%s" % (sig, tr)


def _classify(evs, seg, idx, reason, bad, n, mine, dropped, fired_for_dropped, ka_race):
    # the protocol that shut down had requested a substream itself (its outcome arrives when the protocol is gone)
    own_open = any(e["e"] == "open_exit" and e.get("n") == n and e.get("ret") == "ok" for e in evs) or any(
        e["e"] == "fire" and e.get("n") == n and e.get("ret") == "ok" and any(d["q"] == e.get("q") and evs.index(d) > evs.index(e) for d in dropped) for e in evs)
    if reason in SILENT or reason == "peer cannot be dialed again after the connection closed":
        # which connection was never reported: was a new connection attempted after a drop (accept rollback leaves
        # the protocols that were already told with a connection that never closes)?
        if dropped and fired_for_dropped:
            return "substream-for-dropped-protocol-exits-silently"
        if dropped and own_open:
            return "open-outcome-for-dropped-protocol-exits-silently"
        if dropped:
            est_after = any(e["e"] in ("p_est",) and evs.index(e) > evs.index(dropped[0]) for e in mine)
            return "new-connection-after-protocol-drop-rolled-back" if est_after else "silent-after-protocol-drop"
        if ka_race:
            return "inbound-substream-at-idle-expiry-exits-silently"
        return "never-told-closed"
    if reason in NEWCONN:
        return "new-connection-after-protocol-drop-rolled-back" if dropped else "new-connection-not-reported"
    if reason == "application told closed without a matching established":
        later = [json.loads(x) for x in seg[idx:]]
        if any(e["e"] == "app_est" and e.get("n") == n and e.get("cid") == bad.get("cid") for e in later):
            return "closed-reported-before-established"
        return "app-closed-without-established"
    return reason.replace(" ", "-").replace(":", "")


def run_net(ctx, scs, tag="net"):
    write_jsonl(ctx.path("%s_sc.jsonl" % tag), scs)
    summ, _ = harness(ctx, "connlife", ["--scenarios", ctx.path("%s_sc.jsonl" % tag), "--out", ctx.path("%s.ndjson" % tag),
                                        "--par", 24 if ctx.quick() else 32, "--threads", 8], timeout=3000,
                      env={"VERIF_FAULT": os.environ.get("VERIF_FAULT", "")})
    return summ, read_lines(ctx.path("%s.ndjson" % tag))


def burst_part(ctx):
    """manager level: close reports of several connections (1-2 per peer, 3 peers) queued in the real TransportManager's
    channel before it is polled again; per-peer ledgers of the same monitor (seeded C07g: a drain loop that keeps only the
    first report's event)"""
    n = 400 if ctx.quick() else 6000
    summ, _ = harness(ctx, "connmgr", ["--closeburst", n, "--seed", ctx.seed, "--out", ctx.path("burst.ndjson")], timeout=900)
    lines = read_lines(ctx.path("burst.ndjson"))
    nseg, nev, rejects = validate_all(ctx, "ConnLifeNetTrace.tla", "ConnLifeNetTrace.cfg", lines, tag="mb")
    viol = []
    for r in rejects:
        seg, idx = r
        if r.reason == "unconsumed":
            raise ToolError("burst trace line could not be consumed: %s" % seg[idx - 1][:300])
        sig = "%s@close-burst" % r.reason.replace(" ", "-").replace(":", "")
        viol.append({"sig": sig, "what": "%s (real TransportManager, %s) at %s" % (r.reason, json.loads(seg[0]).get("sc"), seg[idx - 1][:300]),
                     "replay_obj": {"property": "C07", "level": "manager-burst", "reason": r.reason, "signature": sig,
                                    "segment": [json.loads(x) for x in seg]}})
    bursts = [len(json.loads(x)["cids"]) for x in lines if '"e":"burst"' in x]
    return {"executions_validated": nseg, "events_validated": nev, "bursts": len(bursts), "reports_per_burst_max": max(bursts or [0]),
            "closed_events": sum(1 for x in lines if '"e":"app_closed"' in x)}, viol


def check(ctx):
    mc = mc_runs(ctx)
    gen, gstats = generate(ctx, 40 if ctx.quick() else 400)
    log("GEN %s" % {k: gstats[k] for k in gstats if k != "out"})
    build_s = cargo_build(ctx, ["connlife"])
    scs, skipped = scenarios(ctx, gen)
    summ, lines = run_net(ctx, scs)
    log("HARNESS: %s (build %ss)" % ({k: summ[k] for k in summ if k != "event_kinds"}, build_s))
    if summ["scenarios_judged"] < 0.8 * len(scs):
        raise ToolError("too many scenarios were not judged (%d of %d): %s" % (summ["scenarios_judged"], len(scs), summ["inconclusive_reasons"]))
    nseg, nev, rejects = validate_all(ctx, "ConnLifeNetTrace.tla", "ConnLifeNetTrace.cfg", lines)
    violations = []
    for r in rejects:
        seg, idx = r
        if r.reason == "unconsumed":
            raise ToolError("trace line could not be consumed: %s" % seg[idx - 1][:300])
        sig = classify(seg, idx, r.reason)
        violations.append({"sig": sig, "what": "%s (scenario %s) at %s" % (r.reason, json.loads(seg[0]).get("sc"), seg[idx - 1][:300]),
                           "replay_obj": {"property": "C07", "reason": r.reason, "signature": sig,
                                          "scenario": next((s for s in scs if s["name"] == json.loads(seg[0]).get("sc") and s["seed"] == json.loads(seg[0]).get("seed")), None),
                                          "segment": [json.loads(x) for x in seg]}})
    cov = evidence(mc, gstats, summ, scs, lines, nseg, nev)
    cov["not_run_without_proxy"] = skipped
    # "protocols before the manager": not observable on real networks (inboxes hold 4096 events), decided by the
    # blocked-call probe on the real TransportService / ProtocolSet (same harness and monitor as C08)
    pv, pcov = ordering_probe(ctx)
    violations += pv
    cov["ordering_probe"] = pcov
    # unit level: every exit of the real connection task (TcpConnection::start()) on a real negotiated loopback
    # connection with driver-owned protocol inboxes / handles and a scripted remote; same monitor
    ugen, ustats = generate_unit(ctx, 60 if ctx.quick() else 600)
    cargo_build(ctx, ["connunit"])
    ucov, uviol = unit_part(ctx, ugen)
    ucov["generation"] = ustats
    violations += uviol
    cov["unit_level"] = ucov
    cargo_build(ctx, ["connmgr"])
    bcov, bviol = burst_part(ctx)
    violations += bviol
    cov["manager_close_bursts"] = bcov
    cov["traces_validated_against_impl"] += bcov["executions_validated"]
    cov["events_validated"] += bcov["events_validated"]
    cov["traces_validated_against_impl"] += ucov["executions_validated"]
    cov["events_validated"] += ucov["events_validated"]
    cov["by_transport"]["unit(tcp connection task)"] = {"executions_validated": ucov["executions_validated"], "events_validated": ucov["events_validated"]}
    return conclude(ctx, "model_checking", cov, violations, ASSUME + [
        "the order 'protocols before the manager' is judged by the blocked-call probe: one protocol's inbox is filled so that "
        "report_connection_closed suspends on it; while it is suspended the manager's channel must be empty (unit-level, "
        "real TransportService + ProtocolSet through the ServiceHarness; SvcLife monitor)"])


def ordering_probe(ctx):
    """The hand-written connection-life-cycle histories of C08 (they contain the clogged-inbox closures) plus seeded
    random histories, executed on the real TransportService/ProtocolSet; only the ordering rule is reported here."""
    import c08
    write_jsonl(ctx.path("probe_behs.jsonl"), c08.FIXED)
    cargo_build(ctx, ["svc"])
    summ, _ = harness(ctx, "svc", ["--behaviours", ctx.path("probe_behs.jsonl"), "--random", 200 if ctx.quick() else 1500, "--len", 70,
                                   "--seed", ctx.seed, "--out", ctx.path("probe.ndjson")], timeout=1200)
    lines = read_lines(ctx.path("probe.ndjson"))
    nseg, nev, rejects = validate_all(ctx, "SvcLifeTrace.tla", "SvcLifeTrace.cfg", lines, mode="prop", tag="o")
    probes = blocked = 0
    for ln in lines:
        if '"a":"close"' not in ln:
            continue
        d = json.loads(ln)
        if d.get("e") == "step" and d["s"]["a"] == "close" and d["s"].get("clog", -1) >= 0:
            probes += 1
            blocked += 1 if d["ret"].get("blocked") else 0
    viol = []
    for r in rejects:
        seg, idx = r
        if not r.reason.startswith("manager told"):
            continue        # every other rule of that monitor belongs to C08
        viol.append({"sig": "manager-told-of-the-closure-before-the-protocols", "what": "%s at %s" % (r.reason, seg[idx - 1][:400]),
                     "replay_obj": {"property": "C07", "probe": True, "reason": r.reason, "signature": "manager-told-of-the-closure-before-the-protocols",
                                    "segment": [json.loads(x) for x in seg[:idx]]}})
    if (probes == 0 or blocked == 0) and not viol:
        raise ToolError("coverage: the protocols-before-manager probe never blocked report_connection_closed")
    log("ORDER PROBE: %d closures with a clogged protocol inbox, %d suspended the report, manager told early in %d" % (probes, blocked, len(viol)))
    return viol, {"executions": nseg, "events": nev, "probes": probes, "probes_effective": blocked}


def evidence(mc, gstats, summ, scs, lines, nseg, nev):
    fam, shapes, causes, bytr = {}, set(), {}, {}
    segs = split_segments(lines, lambda ln: '"e":"reset"' in ln)
    for s in segs:
        name = json.loads(s[0])["sc"]
        tr = json.loads(s[0]).get("transport", "tcp")
        bytr.setdefault(tr, {"executions_validated": 0, "events_validated": 0})
        bytr[tr]["executions_validated"] += 1
        bytr[tr]["events_validated"] += len(s) - 1
        f = name.split("-at-")[0] if name.startswith("cut-at") else ("tlc" if name.startswith("tlc-") else name)
        fam[f] = fam.get(f, 0) + 1
        evs = [json.loads(x) for x in s[1:]]
        # shape of an execution: the per-observer event sequences (who saw what in which order)
        per = {}
        for e in evs:
            if e["e"] in ("app_est", "app_closed", "p_est", "p_closed", "p_exit", "quiesce", "redial", "proof_ok", "kill", "cut_begin", "fc_begin"):
                per.setdefault(e.get("o", e.get("n", "drv")), []).append(e["e"])
        shapes.add(tr + json.dumps(per, sort_keys=True))
        for e in evs:
            if e["e"] in ("cut_begin", "kill", "fc_begin", "drop_begin", "stall", "pause"):
                causes[e["e"]] = causes.get(e["e"], 0) + 1
            if e["e"] == "px_dead" and e["why"] in ("a", "b"):
                causes["closed_by_node"] = causes.get("closed_by_node", 0) + 1
    samples = []
    for s in segs[:2]:
        samples.append([json.loads(x) for x in s[:25]])
    return {
        "states": sum(m["distinct"] for m in mc), "transitions": sum(m["transitions"] for m in mc),
        "traces_validated_against_impl": nseg, "events_validated": nev, "samples": samples, "by_transport": bytr,
        "evaluations": nseg, "distinct_nontrivial": len(shapes),
        "rule": "a case is one scenario executed on a fresh pair of real litep2p nodes over loopback (transport tcp, ws or quic; hand-written family x "
                "seed x perturbation level, proxy cut points, or a stimulus schedule produced by TLC simulation of ConnLifeNetMC); "
                "distinct = distinct per-observer event-order shapes (which observer saw which events in which order, plus "
                "the injected causes); every case contains at least one connection end",
        "model_runs": mc, "generation": {k: gstats[k] for k in gstats if k != "out"}, "harness": summ,
        "scenario_families": fam, "causes_injected": causes, "scenarios_submitted": len(scs),
        "impl_divergences": 0, "exhaustive": False,
    }


def replay(ctx, path):
    """re-validate the recorded segment and re-run the scenario on fresh nodes (schedules are not
    bit-reproducible over real sockets; the scenario is repeated 8 times)"""
    obj = json.load(open(path))
    seg = [json.dumps(x, separators=(",", ":")) for x in obj["segment"]]
    if obj.get("probe"):
        _, _, rej = validate_all(ctx, "SvcLifeTrace.tla", "SvcLifeTrace.cfg", seg, mode="prop")
        log("replay (recorded ordering-probe history): %s" % ("rejected: %s" % rej[0].reason if rej else "accepted"))
        return 1 if rej else 0
    if obj.get("level") == "unit":
        _, _, rej = validate_all(ctx, "ConnLifeNetTrace.tla", "ConnLifeNetTrace.cfg", seg)
        log("replay recorded unit-level segment: %s" % ("; ".join("line %d: %s" % (r[1], r.reason) for r in rej) if rej else "accepted"))
        rc = 1 if rej else 0
        if obj.get("round"):
            cargo_build(ctx, ["connunit"])
            write_jsonl(ctx.path("ru.jsonl"), [dict(obj["round"], seed=i) for i in range(32)])
            summ, _ = harness(ctx, "connunit", ["--scenarios", ctx.path("ru.jsonl"), "--out", ctx.path("ru.ndjson")])
            _, _, rej2 = validate_all(ctx, "ConnLifeNetTrace.tla", "ConnLifeNetTrace.cfg", read_lines(ctx.path("ru.ndjson")), tag="r")
            log("replay on fresh connections: %d of %d rounds rejected %s" % (len(rej2), summ["rounds"], sorted({r.reason for r in rej2})))
            rc = 1 if rej2 else rc
        return rc
    _, _, rej = validate_all(ctx, "ConnLifeNetTrace.tla", "ConnLifeNetTrace.cfg", seg)
    log("replay recorded segment: %s" % ("; ".join("line %d: %s" % (r[1], r.reason) for r in rej) if rej else "accepted"))
    rc = 1 if rej else 0
    if obj.get("scenario"):
        cargo_build(ctx, ["connlife"])
        scs = [dict(obj["scenario"], seed=obj["scenario"]["seed"] + i) for i in range(8)]
        summ, lines = run_net(ctx, scs, tag="replay")
        _, _, rej2 = validate_all(ctx, "ConnLifeNetTrace.tla", "ConnLifeNetTrace.cfg", lines)
        sigs = sorted({classify(r[0], r[1], r.reason) for r in rej2})
        log("replay on fresh nodes: %d of %d runs rejected %s" % (len({id(r[0]) for r in rej2}), summ["scenarios_judged"], sigs))
        known = load_known("C07")
        if any(s not in known for s in sigs):
            rc = 1
    return rc


def selftest(ctx):
    ok = True
    # (b) negative models: a seeded bug must violate the stated rule; the unrepaired model must reach the defect paths
    small = dict(BASE, Q={"q1"}, MaxCid=2, MaxStim=4)
    for name, consts, inv, expect in [
        # the unrepaired code paths (the original tree) must break the monitor in the model
        ("unrepaired-no-permit-exit", dict(small, Fixed="<- AllButPermit"), "MonStrict QuiesceStrict", "Strict"),
        ("unrepaired-opened-report-to-dead-protocol", dict(small, Fixed="<- AllButOpened"), "MonStrict QuiesceStrict", "Strict"),
        ("unrepaired-open-failure-report-to-dead-protocol", dict(small, Fixed="<- AllButOpenFailure"), "MonStrict QuiesceStrict", "Strict"),
        ("unrepaired-protocol-map", dict(small, Fixed="<- AllButMap"), "MonStrict QuiesceStrict", "MonStrict"),
        ("unrepaired-defect-paths-tagged", dict(small, Fixed=NOFIX), "", "NoKf"),
        ("mgr-first", dict(small, Mutant="mgr-first"), "", "ProtocolsBeforeManager"),
        ("stop-on-proto-error", dict(small, Mutant="stop-on-proto-error"), "", "QuiesceOK"),
        ("close-any", dict(small, Mutant="close-any"), "", "MonOK"),
        ("no-permit-continues", dict(small, Mutant="no-permit-continues"), "", "ClosedOnceRaw"),
        ("mgr-report-dropped-when-full", dict(small, Mutant="mgr-report-dropped-when-full"), "", "QuiesceOK"),
    ]:
        lines = list(MC_LINES)
        if inv:
            lines[1] = "INVARIANTS " + inv
        r = tlc_mc(ctx, "ConnLifeNetMC.tla", write_cfg(ctx, "neg_%s.cfg" % name, consts, lines), workers=6, expect_violation=True, timeout=900)
        hit = bool(__import__("re").search(r"%s\w* is violated" % expect, r["out"]))
        log("selftest model %s -> %s" % (name, "violates %s as required" % expect if hit else "NOT DETECTED"))
        ok &= hit
    # (a) binding: corrupt good recorded executions
    cargo_build(ctx, ["connlife"])
    cat = {n: (a, b, s) for n, a, b, s in catalogue(ctx)}
    scs = [{"name": n, "transport": "tcp", "seed": 7 + i, "A": cat[n][0], "B": cat[n][1], "steps": cat[n][2]} for i, n in enumerate(["cut-cycle", "sim-cut-one", "force-close"])]
    summ, lines = run_net(ctx, scs, tag="st")
    _, _, rej = validate_all(ctx, "ConnLifeNetTrace.tla", "ConnLifeNetTrace.cfg", lines)
    log("selftest baseline: %d segments, %d rejected" % (summ["scenarios_judged"], len(rej)))
    ok &= not rej and summ["scenarios_judged"] == 3

    def corrupt(desc, pick, edit):
        nonlocal ok
        for i, ln in enumerate(lines):
            e = json.loads(ln)
            if pick(e):
                new = edit(e)
                mut = lines[:i] + ([json.dumps(x, separators=(",", ":")) for x in new]) + lines[i + 1:]
                _, _, rj = validate_all(ctx, "ConnLifeNetTrace.tla", "ConnLifeNetTrace.cfg", mut, tag="c")
                log("selftest corrupt: %s at line %d -> %s" % (desc, i + 1, "rejected: %s" % rj[0].reason if rj else "ACCEPTED"))
                ok &= bool(rj)
                return
        log("selftest corrupt: %s -> no candidate line" % desc)
        ok = False
    corrupt("drop a protocol's closed report", lambda e: e["e"] == "p_closed", lambda e: [])
    corrupt("duplicate the application's closed report", lambda e: e["e"] == "app_closed", lambda e: [e, e])
    corrupt("closed before established", lambda e: e["e"] == "app_est", lambda e: [dict(e, e="app_closed"), e])
    corrupt("redial refused", lambda e: e["e"] == "redial", lambda e: [dict(e, ok=False, attempted=False, clean=True)])
    # closed reported while the second of two overlapping connections still carries traffic
    seg_sim = [i for i, ln in enumerate(lines) if '"sc":"sim-cut-one"' in ln][0]
    corrupt("closed while another connection is alive",
            lambda e: e["e"] == "proof_begin" and e["n"] == "A" and lines.index(json.dumps(e, separators=(",", ":"))) > seg_sim if json.dumps(e, separators=(",", ":")) in lines else False,
            lambda e: [{"e": "p_closed", "n": "A", "q": "q1", "o": "A.q1", "t": e["t"]}, e])
    # (c) harness fault injection: the real pipeline must flag a harness that loses a report
    for fault in ("drop_closed", "dup_app_closed"):
        os.environ["VERIF_FAULT"] = fault
        try:
            s2, l2 = run_net(ctx, scs[:1], tag="f")
        finally:
            os.environ.pop("VERIF_FAULT")
        _, _, rj = validate_all(ctx, "ConnLifeNetTrace.tla", "ConnLifeNetTrace.cfg", l2, tag="f")
        log("selftest harness fault %s -> %s" % (fault, "rejected: %s" % rj[0].reason if rj else "ACCEPTED"))
        ok &= bool(rj)
    log("SELFTEST %s" % ("ok" if ok else "FAILED"))
    return 0 if ok else 2
