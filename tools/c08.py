"""C08 - protocols see a well-formed per-peer connection and substream event stream.

Spec: SvcLife.tla (property monitor), SvcLifeMC.tla (implementation-shaped model of
TransportService / ConnectionHandle / ProtocolSet with scripted connections), SvcLifeTrace.tla.
Harness: bin `svc` on top of the in-crate hook litep2p::verif::svc::ServiceHarness.
Also carries the C07 ordering cross-check (report_connection_closed: protocols before manager).
"""
import json
import random
from vlib import *

ASSUME = [
    "scope of the verdict: at most two overlapping connections per peer (the property's quantifier; the manager admits no "
    "third one because report_connection_closed tells the protocols before the manager - that ordering is probed on the "
    "real ProtocolSet in every run). Executions with a third overlapping connection are still generated: alternation, "
    "at-most-once answers and identifier freshness are judged there, 'substream event while not connected' and panics are "
    "only counted (third_connection_* in the evidence)",
    "connections are scripted: each owns the real ProtocolSet a transport gets from TransportHandle::protocol_set and calls "
    "the real report_* methods; a legal connection answers a request at most once, reports closed last and then goes away; "
    "substream open timeouts are the connection's report_substream_open_failure (same path as any failure)",
    "keep-alive expiry is scripted by shifting the tracker's clock for one connection (hook); the expiry and the downgrade "
    "run through the unchanged KeepAliveTracker / poll_next code. Real-time keep-alive behaviour is C09",
    "one stimulus at a time, single thread: the interleavings explored are those of inbox contents, polls, calls and "
    "connection-side steps; two services (keep-alive Yes/No) share the manager's substream id allocator",
    "real-network part: two real nodes over loopback tcp / websocket / quic (public API, multi-threaded runtime, single and "
    "simultaneous dials, force_close from either side racing with open requests, open requests on a protocol the remote "
    "lacks); one observer per node; 'answered exactly once' is judged only while the nodes are linked by one connection, "
    "after waiting 6x the configured substream open timeout; runs that did not connect or ran on a stalled machine (20 ms "
    "canary timer overshooting) are discarded",
    "burst scenarios (open-burst-against-held-remote): 300 (tcp, ws) / 64 (quic) open_substream calls are issued within half "
    "the open timeout against a held remote: yamux hands out at most 256 unacknowledged outbound streams, so the requests "
    "above that wait for a stream slot and are ended by the outer open timer, the others by the negotiation timer; every "
    "accepted id must come back as exactly one open failure; a run whose burst took longer to issue is discarded",
    "timeout scenarios: every task litep2p spawned for the remote node is held through its executor (its kernel sockets / "
    "quinn endpoint driver keep accepting bytes and streams, nobody answers multistream-select); substream open timeout 1 s, "
    "the answer may take 7 s, the remote is released after 3 s so that the link itself stays alive; not judged if the link "
    "ended meanwhile",
    "a protocol that is slow to drain its events: the harness fills the protocol's 4096-slot inbox with filler events "
    "(skipped silently when the service is polled) right before a connection hands it a substream result; the connection's "
    "report call stays suspended (it can do nothing else) until a slot is free. An answer that is refused or dropped there "
    "leaves the request unanswered (judged at quiescence); a lost INBOUND substream is only recorded (inbound:err / "
    "deliver:err in full_inbox_deliveries), the statement does not demand its delivery",
    "usability probe: at the end of every execution, when exactly one fresh connection to a peer is up, every inbox is "
    "empty and nothing has been downgraded since, open_substream(peer) must be accepted by every live protocol (statement: "
    "'while a peer is connected a request to open a substream is accepted'); elsewhere a refusal is never judged (a "
    "downgraded or clogged connection may legitimately refuse)",
    "a dropped protocol: its TransportService is dropped (inbox, handles, tracker gone) while the ProtocolSet of every "
    "later scripted connection still holds its sender, as the snapshot real transports hold does; its own requests are void "
    "from then on. The order in which report_connection_established polls its sends follows the protocol map's "
    "per-process random order, so which side of the dropped protocol a live one is on varies from execution to execution; "
    "the full-inbox variant makes the live send pending deterministically",
    "TLC bounds: see model_runs / generation in the evidence (1-2 peers, up to 3 connection ids per peer, up to 3 open "
    "requests, inbound substreams, force_close, keep-alive expiry, window between report_connection_closed and task end)",
]

BASE = {"Peers": {"p1"}, "Svc": {0, 1}, "KAs": "<- KADef", "MaxCid": 3, "MaxPerPeer": 3, "MaxOverlap": 2,
        "MaxOpens": 0, "MaxInb": 0, "MaxFc": 0, "MaxExp": 0, "MaxFull": 0, "MaxDropProto": 0, "Phases": False, "PCap": 4096, "Eager": "<- NoEager", "EagerCmd": False,
        "SplitClose": False, "Clog": False, "Bug": "none"}
MC_INV = ["SPECIFICATION Spec", "INVARIANTS MonOK QuiesceOK IdsBelow NoPanicInScope", "VIEW View", "CHECK_DEADLOCK FALSE"]
NEG_INV = ["SPECIFICATION Spec", "INVARIANTS MonOK QuiesceOK NoPanicInScope", "VIEW View", "CHECK_DEADLOCK FALSE"]
GEN = ["SPECIFICATION Spec", "VIEW GenView", "ACTION_CONSTRAINT Emit", "CHECK_DEADLOCK FALSE"]
E1 = "= {1}"


def cfg(**kw):
    d = dict(BASE)
    for k, v in kw.items():
        d[k] = v
    return d


def write_cfg2(ctx, name, consts, lines):
    p = ctx.path(name)
    with open(p, "w") as f:
        f.write("CONSTANTS\n")
        for k, v in consts.items():
            if isinstance(v, str) and (v.startswith("<-") or v.startswith("=")):
                f.write("  %s %s\n" % (k, v))
            else:
                f.write("  %s = %s\n" % (k, tla(v)))
        for ln in lines:
            f.write(ln + "\n")
    return p


P2 = {"p1", "p2"}


def mc_configs(ctx):
    if ctx.quick():
        return [
            # connection life cycle, both services lazy, third connection offered, ordering probe
            ("life3", cfg(MaxOverlap=3, MaxInb=1, Clog=True)),
            # substreams on two overlapping connections + keep-alive expiry
            ("subs", cfg(MaxOpens=2, MaxExp=1, Eager=E1)),
            # window between report_connection_closed and the end of the task, force_close
            ("window", cfg(MaxCid=2, MaxPerPeer=2, MaxOpens=2, MaxFc=1, SplitClose=True, Eager=E1)),
            ("keepalive", cfg(MaxCid=2, MaxPerPeer=2, MaxOpens=1, MaxInb=1, MaxExp=3, KAs="<- KAAny", Eager=E1, EagerCmd=True)),
            # two peers
            ("peers2", cfg(Peers=P2, MaxPerPeer=2, MaxOpens=2, Eager="= {0, 1}", EagerCmd=True)),
            # substream results handed to a protocol whose inbox is full (suspended report call, Deliver)
            ("full", cfg(MaxCid=2, MaxPerPeer=2, MaxOpens=1, MaxInb=1, MaxFull=1, Eager=E1)),
            # the user drops a protocol; connections are established afterwards, also into a full inbox of the live one
            ("dropq", cfg(MaxCid=2, MaxPerPeer=2, MaxInb=1, MaxFull=1, MaxDropProto=1)),
            # connection-side open in two phases (stream slot, negotiation); either may time out or be cut by the closure
            ("phases", cfg(MaxCid=2, MaxPerPeer=2, MaxOpens=2, Phases=True, Eager=E1)),
        ]
    return [
        ("life3", cfg(MaxCid=4, MaxPerPeer=4, MaxOverlap=3, MaxInb=1, Clog=True)),
        ("subs", cfg(MaxOpens=2, MaxInb=1, MaxExp=1, Eager=E1)),
        ("subs3", cfg(MaxOpens=3, Eager=E1, EagerCmd=True)),
        ("subs_lazy", cfg(MaxCid=2, MaxPerPeer=2, MaxOpens=2, MaxInb=1)),
        ("window", cfg(MaxOpens=2, MaxFc=1, SplitClose=True, Eager=E1)),
        ("keepalive", cfg(MaxCid=2, MaxPerPeer=2, MaxOpens=2, MaxInb=1, MaxExp=3, KAs="<- KAAny", Eager=E1)),
        ("peers2", cfg(Peers=P2, MaxCid=4, MaxPerPeer=2, MaxOpens=1, Eager=E1, EagerCmd=True)),
        # 2 peers, up to 3 connection ids per peer
        ("peers2x3", cfg(Peers=P2, MaxCid=5, MaxPerPeer=3, MaxOpens=2, Eager="= {0, 1}", EagerCmd=True)),
        ("full", cfg(MaxCid=2, MaxPerPeer=2, MaxOpens=2, MaxInb=1, MaxFull=1, Eager=E1)),
        ("full_lazy", cfg(MaxCid=2, MaxPerPeer=2, MaxOpens=2, MaxFull=2)),
        ("dropq", cfg(MaxCid=2, MaxPerPeer=2, MaxOpens=1, MaxInb=1, MaxFull=1, MaxDropProto=1)),
        ("dropq3", cfg(MaxCid=3, MaxPerPeer=3, MaxInb=1, MaxFull=1, MaxDropProto=1)),
        ("phases", cfg(MaxOpens=2, MaxInb=1, Phases=True, Eager=E1)),
    ]


def gen_configs(ctx):
    if ctx.quick():
        return [
            ("life", cfg(Clog=True)),
            ("life_in", cfg(MaxInb=1, Eager=E1)),
            ("life3", cfg(MaxOverlap=3, Eager=E1)),
            ("subs", cfg(MaxCid=2, MaxPerPeer=2, MaxOpens=2, Eager=E1)),
            ("subs_in", cfg(MaxCid=2, MaxPerPeer=2, MaxOpens=1, MaxInb=1, Eager=E1)),
            ("window", cfg(MaxCid=2, MaxPerPeer=2, MaxOpens=1, MaxFc=1, SplitClose=True, Eager=E1)),
            ("keepalive", cfg(MaxCid=2, MaxPerPeer=2, MaxOpens=1, MaxExp=2, Eager=E1, EagerCmd=True)),
            ("peers2", cfg(Peers=P2, MaxCid=2, MaxPerPeer=2, MaxOpens=1, Eager=E1)),
            ("full", cfg(MaxCid=2, MaxPerPeer=2, MaxOpens=1, MaxInb=1, MaxFull=1, Eager=E1)),
            ("dropq", cfg(MaxCid=2, MaxPerPeer=2, MaxInb=1, MaxFull=1, MaxDropProto=1)),
            ("phases", cfg(MaxCid=1, MaxPerPeer=1, MaxOpens=2, Phases=True, Eager=E1)),
        ]
    return [
        ("life", cfg(MaxInb=1, Clog=True)),
        ("life3", cfg(MaxOverlap=3, MaxInb=1, Eager=E1)),
        ("subs", cfg(MaxCid=2, MaxPerPeer=2, MaxOpens=2, MaxInb=1, Eager=E1)),
        ("window", cfg(MaxCid=2, MaxPerPeer=2, MaxOpens=2, MaxFc=1, SplitClose=True, Eager=E1)),
        ("keepalive", cfg(MaxCid=2, MaxPerPeer=2, MaxOpens=1, MaxExp=2, KAs="<- KAAny", Eager=E1, EagerCmd=True)),
        ("peers2", cfg(Peers=P2, MaxCid=2, MaxPerPeer=2, MaxOpens=1, MaxInb=1, Eager=E1)),
        ("full", cfg(MaxCid=2, MaxPerPeer=2, MaxOpens=1, MaxInb=1, MaxFull=1, Eager=E1)),
        ("full_lazy", cfg(MaxCid=1, MaxPerPeer=1, MaxOpens=2, MaxInb=1, MaxFull=2)),
        ("dropq", cfg(MaxCid=2, MaxPerPeer=2, MaxInb=1, MaxFull=1, MaxDropProto=1)),
        ("phases", cfg(MaxCid=2, MaxPerPeer=2, MaxOpens=2, Phases=True, Eager=E1, EagerCmd=True)),
    ]


def mc_runs(ctx):
    out = []
    for name, consts in mc_configs(ctx):
        r = tlc_mc(ctx, "SvcLifeMC.tla", write_cfg2(ctx, "mc_%s.cfg" % name, consts, MC_INV), workers=8, timeout=1500)
        if not r["ok"]:
            raise ToolError("SvcLifeMC violates an invariant in config %s; the model must be corrected or the "
                            "counterexample replayed against the code:\n%s" % (name, r.get("error", r["out"][-3000:])))
        st = {k: r[k] for k in ("transitions", "distinct", "depth", "wall_s") if k in r}
        st["cfg"] = name
        st["constants"] = {k: (sorted(v) if isinstance(v, (set, frozenset)) else v) for k, v in consts.items()}
        out.append(st)
        log("MC %s: %s" % (name, {k: st[k] for k in ("transitions", "distinct", "depth", "wall_s")}))
    return out


def maximal(behs):
    """A behaviour is the BFS prefix of a state plus one transition; drop those that are a proper
    prefix of another emitted behaviour (executing the longer one executes them)."""
    keyed = []
    covered = set()
    for b in behs:
        k = (tuple(b["ka"]), tuple(json.dumps(s, sort_keys=True) for s in b["stims"]))
        keyed.append(k)
        covered.add((k[0], k[1][:-1]))
    return [b for b, k in zip(behs, keyed) if k not in covered]


def generate(ctx):
    """Behaviours per transition of every generation config, reduced to the maximal ones; the quick tier replays a
    seeded sample of them (the whole set is replayed by the thorough tier; VERIF_SEED moves the sample)."""
    behs, stats = [], []
    budget = 6000 if ctx.quick() else 30000
    per = []
    for name, consts in gen_configs(ctx):
        b, g = tlc_generate(ctx, "SvcLifeMC.tla", write_cfg2(ctx, "gen_%s.cfg" % name, consts, GEN), timeout=1500)
        m = maximal(b)
        g["cfg"] = name
        g["maximal"] = len(m)
        stats.append(g)
        per.append(m)
    total = sum(len(m) for m in per)
    rnd = random.Random(ctx.seed)
    for g, m in zip(stats, per):
        if budget and total > budget:
            k = max(200, len(m) * budget // total)
            if k < len(m):
                m = rnd.sample(m, k)
        g["replayed"] = len(m)
        behs += m
        log("GEN %s" % g)
    # the same history can come out of two configurations
    seen, uniq = set(), []
    for b in behs:
        k = json.dumps(b, sort_keys=True)
        if k not in seen:
            seen.add(k)
            uniq.append(b)
    return uniq, stats


def S(a, **kw):
    d = {"a": a}
    d.update(kw)
    return d


# hand-written histories replayed in every run so that each outcome class is exercised at least once
FIXED = [
    # both services let the keep-alive of the only connection expire: no sender is left, the connection sees the end
    # of its command stream, cannot get a permit for an inbound substream, open_substream is refused
    {"ka": [True, False], "stims": [S("est", p="p1", c=1), S("poll", q=0), S("poll", q=1), S("expire", q=0, p="p1", c=1),
                                    S("expire", q=1, p="p1", c=1), S("cmd", c=1), S("inbound", c=1, q=0), S("open", q=0, p="p1"),
                                    S("open", q=1, p="p2")]},
    # force_close reaches both connections; a request is read, fails, and the failure carries the id
    {"ka": [True, False], "stims": [S("est", p="p1", c=1), S("est", p="p1", c=2), S("poll", q=0), S("open", q=0, p="p1"),
                                    S("fclose", q=0, p="p1"), S("cmd", c=1), S("reply", c=1, id=0, ok=False), S("cmd", c=1),
                                    S("cmd", c=2), S("poll", q=0), S("fclose", q=1, p="p1")]},
    # secondary promoted with a request in flight on the old primary; ordering probe on the second closure
    {"ka": [True, True], "stims": [S("est", p="p1", c=1), S("est", p="p1", c=2), S("poll", q=0), S("poll", q=1), S("open", q=1, p="p1"),
                                   S("cmd", c=1), S("close", c=1, clog=-1), S("open", q=1, p="p1"), S("drop", c=1), S("poll", q=1),
                                   S("open", q=1, p="p1"), S("cmd", c=2), S("reply", c=2, id=2, ok=True), S("poll", q=1),
                                   S("poll", q=0), S("close", c=2, clog=0)]},
    # the answers to accepted requests (success, failure) and an inbound substream arrive at a protocol whose inbox
    # is full: the connection's report call is suspended and completes once the protocol has drained something
    {"ka": [True, False], "stims": [S("est", p="p1", c=1), S("poll", q=0), S("poll", q=1), S("open", q=0, p="p1"),
                                    S("open", q=0, p="p1"), S("cmd", c=1), S("cmd", c=1), S("reply", c=1, id=0, ok=True, full=True),
                                    S("deliver", c=1), S("poll", q=0), S("deliver", c=1), S("poll", q=0),
                                    S("reply", c=1, id=1, ok=False, full=True), S("poll", q=0), S("deliver", c=1), S("poll", q=0),
                                    S("inbound", c=1, q=1, full=True), S("poll", q=1), S("deliver", c=1), S("poll", q=1)]},
    # the user drops one protocol; later connections must still be announced to the other one - with room in its inbox
    # and with its inbox full at that moment (the report call waits for it) - and stay usable
    {"ka": [True, False], "stims": [S("est", p="p1", c=1, full=-1), S("poll", q=0), S("poll", q=1), S("dropproto", q=1),
                                    S("est", p="p1", c=2, full=-1), S("poll", q=0), S("inbound", c=2, q=0), S("poll", q=0),
                                    S("close", c=1, clog=-1), S("drop", c=1), S("poll", q=0),
                                    S("est", p="p2", c=3, full=0), S("poll", q=0), S("deliver", c=3), S("poll", q=0),
                                    S("open", q=0, p="p2"), S("est", p="p3", c=4, full=-1), S("poll", q=0)]},
    # keep-alive downgrades one of two overlapping connections in a protocol, then both close (either order):
    # closed is reported once, and the peer is usable again afterwards (the epilogue re-establishes and opens)
    {"ka": [True, False], "stims": [S("est", p="p1", c=1), S("est", p="p1", c=2), S("poll", q=0), S("poll", q=0), S("poll", q=1), S("poll", q=1),
                                    S("expire", q=0, p="p1", c=2), S("expire", q=1, p="p1", c=2), S("close", c=2, clog=-1), S("drop", c=2),
                                    S("poll", q=0), S("poll", q=1), S("close", c=1, clog=-1), S("drop", c=1), S("poll", q=0), S("poll", q=1)]},
    {"ka": [True, True], "stims": [S("est", p="p1", c=1), S("est", p="p1", c=2), S("poll", q=0), S("poll", q=0), S("poll", q=1), S("poll", q=1),
                                   S("expire", q=0, p="p1", c=1), S("expire", q=1, p="p1", c=2), S("close", c=1, clog=-1), S("drop", c=1),
                                   S("poll", q=0), S("poll", q=1), S("expire", q=0, p="p1", c=2), S("close", c=2, clog=-1), S("drop", c=2),
                                   S("poll", q=0), S("poll", q=1)]},
    {"ka": [True, True], "stims": [S("est", p="p1", c=1, full=-1), S("dropproto", q=0), S("poll", q=1),
                                   S("est", p="p2", c=2, full=-1), S("poll", q=1), S("est", p="p3", c=3, full=1), S("poll", q=1),
                                   S("deliver", c=3), S("poll", q=1), S("est", p="p1", c=4, full=-1), S("poll", q=1),
                                   S("open", q=1, p="p3"), S("cmd", c=3), S("reply", c=3, id=0, ok=True), S("poll", q=1)]},
]


def slug(reason):
    return reason.replace(" ", "-").replace("'", "")


def classify(seg, idx, reason):
    """Stable signature: the broken rule plus the shape of the history that led to it."""
    if reason == "unconsumed":
        return "malformed-trace"
    ev = json.loads(seg[idx - 1])
    s = ev.get("s", {})
    head = json.loads(seg[0])
    if head.get("src") == "net":
        # real nodes: transport and scenario kind are part of the signature
        kind = head.get("kind", "mix")
        return "net-%s-%s%s" % (head.get("transport", "tcp"),
                                "open-timeout-" if kind == "timeout" else "open-burst-against-held-remote-" if kind.startswith("burst") else "",
                                slug(reason))
    if reason.startswith("accepted open request never answered"):
        # why: did a connection try to hand the answer over and get refused? (refusals by a protocol the user
        # had dropped do not count: its requests are void)
        gone, refused = set(), []
        for ln in seg[:idx]:
            d = json.loads(ln)
            if d.get("e") != "step":
                continue
            if d["s"]["a"] == "dropproto":
                gone.add(d["s"]["q"])
            if d["s"]["a"] in ("reply", "deliver") and d["s"].get("what", "reply") == "reply" and d["ret"].get("k") == "err" \
                    and d["s"].get("q") not in gone:
                refused.append(d["ret"].get("err", ""))
        if any("Clogged" in e for e in refused):
            return "open-answer-refused-by-full-protocol-inbox"
        if refused:
            return "open-answer-refused-by-protocol-channel"
    # the user dropped a protocol earlier in this execution (the remaining protocols must not notice)
    after_drop = "-after-protocol-drop" if any('"a":"dropproto"' in ln for ln in seg[:idx]) else ""
    if reason == "panic":
        msg = ev.get("ret", {}).get("msg", "")
        return "panic-in-%s%s%s" % (s.get("a", "?"), "-debug-assert" if "assertion failed" in msg else "", after_drop)
    return slug(reason) + after_drop


def pipeline(ctx):
    mc = mc_runs(ctx)
    behs, gstats = generate(ctx)
    behs = FIXED + behs
    write_jsonl(ctx.path("behs.jsonl"), behs)
    build_s = cargo_build(ctx, ["svc"])
    nrand, rlen = (600, 70) if ctx.quick() else (5000, 90)
    # real nodes: tcp in full, websocket / quic a sample, plus the never-answered outbound open on each transport
    # burst: far more requests than the multiplexer has stream slots, against a remote that is held
    plan = "tcp:mix:20,ws:mix:7,quic:mix:7,tcp:timeout:2,ws:timeout:2,quic:timeout:2,tcp:burst300:1,ws:burst300:1,quic:burst64:1" \
        if ctx.quick() else \
           "tcp:mix:200,ws:mix:70,quic:mix:70,tcp:timeout:8,ws:timeout:8,quic:timeout:8,tcp:burst300:3,ws:burst300:3,quic:burst64:3"
    nnet = plan
    summ, _ = harness(ctx, "svc", ["--behaviours", ctx.path("behs.jsonl"), "--random", nrand, "--len", rlen,
                                   "--seed", ctx.seed, "--out", ctx.path("trace.ndjson"),
                                   "--net", nnet, "--netout", ctx.path("net.ndjson")], timeout=3000)
    log("HARNESS: %s (build %ss)" % (summ, build_s))
    lines = read_lines(ctx.path("trace.ndjson"))
    netlines = read_lines(ctx.path("net.ndjson"))
    for item, st in summ["net"]["plan"].items():
        if st["runs"] < max(1, st["wanted"] // 2):
            raise ToolError("real-network part %s: only %s of %s scenarios could be run (discarded: %s)" %
                            (item, st["runs"], st["wanted"], st["discard_reasons"]))
        if (item.endswith(":timeout") or ":burst" in item) and st["held_opens"] == 0:
            raise ToolError("real-network part %s: no open request was accepted while the remote was held" % item)
    nseg, nev, rejects = validate_all(ctx, "SvcLifeTrace.tla", "SvcLifeTrace.cfg", lines, mode="prop")
    nseg2, nev2, rej2 = validate_all(ctx, "SvcLifeTrace.tla", "SvcLifeTrace.cfg", netlines, mode="prop", tag="n")
    summ["net"]["segments"], summ["net"]["events"] = nseg2, nev2
    per = {}
    cur = None
    for ln in netlines:
        if '"e":"reset"' in ln:
            cur = json.loads(ln).get("transport", "tcp")
            per.setdefault(cur, {"segments": 0, "events": 0})["segments"] += 1
        elif cur:
            per[cur]["events"] += 1
    summ["net"]["per_transport"] = per
    for r in rej2:
        r.net = True
    rejects = rejects + rej2
    _, _, drift = validate_segments(ctx, "SvcLifeTrace.tla", "SvcLifeTrace.cfg", lines, mode="impl", max_rejects=3, tag="d")
    for seg, idx in drift:
        log("NOTE drift: real TransportService/ProtocolSet deviates from SvcLifeMC at %s" % seg[idx - 1][:600])
    return mc, gstats, summ, lines, nseg, nev, rejects, drift


def evidence(mc, gstats, summ, lines, nseg, nev, drift):
    kinds, results, distinct = {}, {}, set()
    cur, third, third_panics, probes, probe_blocked = [], 0, 0, 0, 0
    live, tainted = {}, False
    samples = []
    for ln in lines:
        d = json.loads(ln)
        if d["e"] == "reset":
            if cur:
                distinct.add(hash(tuple(cur)))
            cur, live, tainted = [], {}, False
            continue
        if d["e"] != "step":
            continue
        s, r = d["s"], d["ret"]
        kinds[s["a"]] = kinds.get(s["a"], 0) + 1
        key = "%s:%s" % (s["a"], r.get("k"))
        results[key] = results.get(key, 0) + 1
        cur.append((s["a"], s.get("p"), s.get("c"), s.get("q"), s.get("id"), s.get("ok"), s.get("clog")))
        if s["a"] == "est":
            live.setdefault(s["p"], set()).add(s["c"])
            if len(live[s["p"]]) > 2 and not tainted:
                tainted = True
                third += 1
        if s["a"] == "close":
            live.get(s["p"], set()).discard(s["c"])
            if s.get("clog", -1) >= 0:
                probes += 1
                probe_blocked += 1 if r.get("blocked") else 0
        if d.get("panic") and tainted:
            third_panics += 1
        if len(samples) < 6 and s["a"] in ("poll", "open", "close") and r.get("k") not in ("pending",):
            samples.append({"stim": s, "ret": r})
    if cur:
        distinct.add(hash(tuple(cur)))
    return {
        "states": sum(m["distinct"] for m in mc),
        "transitions": sum(m["transitions"] for m in mc),
        "traces_validated_against_impl": nseg,
        "events_validated": nev,
        "samples": samples,
        "evaluations": nseg,
        "distinct_nontrivial": len(distinct),
        "rule": "a case is one stimulus history executed on real TransportServices and real ProtocolSets of scripted "
                "connections, followed by the settle/probe epilogue (TLC-generated: the maximal ones among 'BFS prefix + one "
                "transition' of the bounded model graphs; random: seeded histories over 3 peers, random keep-alive flags, 12% "
                "with a third overlapping connection); distinct = distinct stimulus sequences; every one contains at least one "
                "connection establishment",
        "model_runs": mc,
        "generation": gstats,
        "harness": summ,
        "real_network": summ.get("net", {}),
        "stimuli_exercised": kinds,
        "results_observed": results,
        "impl_divergences": len(drift),
        "third_connection_executions": third,
        "third_connection_panics": third_panics,
        "full_inbox_deliveries": {k: results.get(k, 0) for k in ("reply:blocked", "inbound:blocked", "deliver:ok", "deliver:blocked",
                                                                    "reply:err", "inbound:err", "deliver:err")},
        "c07_ordering_probes": probes,
        "c07_ordering_probes_effective": probe_blocked,
        "exhaustive": False,
    }


NEEDED_RESULTS = ["poll:est", "poll:closed", "poll:opened", "poll:failed", "open:ok", "open:err", "cmd:open", "cmd:none",
                  "cmd:force", "reply:ok", "inbound:ok", "inbound:nopermit", "drop:ok", "expire:ok", "fclose:ok", "close:ok",
                  "reply:blocked", "inbound:blocked", "deliver:ok", "deliver:blocked", "dropproto:ok", "est:blocked", "slot:ok"]


def conn_task_part(ctx):
    """R3 on the real connection task (TcpConnection::start() on a negotiated loopback connection, scripted yamux remote):
    an accepted open_substream id is answered exactly once while the connection stays up - for a remote that serves,
    refuses (protocol unknown to it), never answers (open timeout) or aborts the negotiation of that one substream with
    an I/O error in the middle of a multistream-select frame (seeded C08g).  Judged by the open-answer ledger of
    ConnLifeNet.tla (events open_call / sub_out / sub_fail / answers_due)."""
    import random
    rnd = random.Random(ctx.seed + 11)
    rounds = []
    reps = 6 if ctx.quick() else 40
    run = lambda ms: {"op": "run", "ms": ms}
    for mode in ("serve", "refuse", "stall", "truncate", "truncate-then-serve"):
        for q in (0, 1, 2):
            for r in range(reps):
                if mode == "serve":
                    st = [{"op": "open", "q": q}, run(200)]
                elif mode == "refuse":
                    st = [{"op": "remote", "supported": [x for x in (0, 1, 2) if x != q]}, {"op": "open", "q": q}, run(200)]
                elif mode == "stall":
                    st = [{"op": "remote", "supported": [0, 1, 2], "stall": True}, {"op": "open", "q": q}, run(700)]
                elif mode == "truncate":
                    st = [{"op": "remote", "supported": [0, 1, 2], "truncate": True}, {"op": "open", "q": q}, {"op": "open", "q": (q + 1) % 3}, run(250)]
                else:
                    st = [{"op": "remote", "supported": [0, 1, 2], "truncate": True}, {"op": "open", "q": q}, run(150),
                          {"op": "remote", "supported": [0, 1, 2]}, {"op": "open", "q": q}, run(200)]
                st += [{"op": "due"}, {"op": "rclose"}, {"op": "finish"}]
                rounds.append({"name": "open-answer-%s-q%d" % (mode, q), "exit": "open-answer-" + mode, "seed": rnd.randrange(1 << 30),
                               "inbox": 16, "sub_timeout_ms": 300, "steps": st})
    write_jsonl(ctx.path("ct_sc.jsonl"), rounds)
    summ, _ = harness(ctx, "connunit", ["--scenarios", ctx.path("ct_sc.jsonl"), "--out", ctx.path("ct.ndjson"), "--par", 16, "--threads", 8], timeout=1200)
    if summ["rounds"] < 0.9 * len(rounds):
        raise ToolError("too many connection-harness rounds could not be set up: %s" % summ)
    lines = read_lines(ctx.path("ct.ndjson"))
    nseg, nev, rejects = validate_all(ctx, "ConnLifeNetTrace.tla", "ConnLifeNetTrace.cfg", lines, tag="ct")
    kinds = {}
    due_alive = 0
    for ln in lines:
        d = json.loads(ln)
        if d["e"] in ("open_call", "sub_out", "sub_fail"):
            kinds[d["e"]] = kinds.get(d["e"], 0) + 1
        if d["e"] == "answers_due" and d["alive"]:
            due_alive += 1
    viol = []
    for r in rejects:
        seg, idx = r
        if r.reason == "unconsumed":
            raise ToolError("connection-task trace line could not be consumed: %s" % seg[idx - 1][:300])
        if "open request" not in r.reason:
            continue    # the lifecycle rules of these rounds belong to C07
        head = json.loads(seg[0])
        sig = "%s@%s" % (r.reason.replace(" ", "-"), head.get("exit", "?"))
        viol.append({"sig": sig, "what": "%s (real TcpConnection::start(), round %s) at %s" % (r.reason, head.get("sc"), seg[idx - 1][:300]),
                     "replay_obj": {"property": "C08", "level": "connection-task", "reason": r.reason, "signature": sig,
                                    "segment": [json.loads(x) for x in seg]}})
    if not viol and (due_alive < 0.8 * len(rounds) or not kinds.get("sub_out") or not kinds.get("sub_fail")):
        raise ToolError("coverage: connection-task rounds did not reach their check point alive or never saw both answers: %s due_alive=%d" % (kinds, due_alive))
    return {"rounds": len(rounds), "executions_validated": nseg, "events_validated": nev, "answers": kinds, "check_points_alive": due_alive}, viol


def check(ctx):
    mc, gstats, summ, lines, nseg, nev, rejects, drift = pipeline(ctx)
    violations = []
    for r in rejects:
        seg, idx = r
        sig = classify(seg, idx, r.reason)
        violations.append({"sig": sig, "what": "%s at %s" % (r.reason, seg[idx - 1][:500]),
                           "replay_obj": {"property": "C08", "reason": r.reason, "signature": sig,
                                          "segment": [json.loads(x) for x in seg[:idx]]}})
    cov = evidence(mc, gstats, summ, lines, nseg, nev, drift)
    cargo_build(ctx, ["connunit"])
    ccov, cviol = conn_task_part(ctx)
    violations += cviol
    cov["connection_task_open_answers"] = ccov
    # coverage is demanded of a run that found nothing; a run with rejected executions reports those
    # (a changed code path can make an outcome class disappear, e.g. a call that no longer blocks)
    missing = [k for k in NEEDED_RESULTS if not cov["results_observed"].get(k)]
    if missing and not violations:
        raise ToolError("coverage: these outcomes were never observed on the real code: %s" % missing)
    if missing:
        ctx.notes.append("outcomes never observed in this run: %s" % missing)
    if (cov["c07_ordering_probes"] == 0 or cov["c07_ordering_probes_effective"] == 0) and not violations:
        raise ToolError("coverage: the protocols-before-manager probe never blocked report_connection_closed")
    log("C07 cross-check (protocols before manager): %d probes, %d effective (call suspended on a full protocol inbox), "
        "manager told early in %d" % (cov["c07_ordering_probes"], cov["c07_ordering_probes_effective"],
                                     sum(1 for r in rejects if r.reason.startswith("manager told"))))
    if cov["third_connection_panics"]:
        log("NOTE outside the property's scope: %d of %d executions with a third overlapping connection ended in the "
            "debug_assert of on_connection_closed (\"connection closed to a non-existent peer\")" %
            (cov["third_connection_panics"], cov["third_connection_executions"]))
    return conclude(ctx, "model_checking", cov, violations, ASSUME)


def replay(ctx, path):
    obj = json.load(open(path))
    seg = [json.dumps(x, separators=(",", ":")) for x in obj["segment"]]
    _, _, rej = validate_all(ctx, "SvcLifeTrace.tla", "SvcLifeTrace.cfg", seg)
    log("replay: %s" % ("rejected: %s" % rej[0].reason if rej else "accepted"))
    return 1 if rej else 0


NEG = [
    # (name, constants, invariant expected to fail, rule expected in the monitor (regex) or None)
    ("est_secondary", cfg(MaxCid=2, MaxPerPeer=2, Bug="est_secondary"), "MonOK", "established reported twice"),
    ("no_promote", cfg(MaxCid=2, MaxPerPeer=2, MaxInb=1, Bug="no_promote"), "MonOK|NoPanicInScope", "not connected|panic"),
    ("answer_lost", cfg(MaxCid=1, MaxPerPeer=1, MaxOpens=1, Bug="answer_lost"), "QuiesceOK", None),
    ("id_reuse", cfg(MaxCid=1, MaxPerPeer=1, MaxOpens=2, Bug="id_reuse"), "MonOK", "identifier reused"),
    ("mgr_first", cfg(MaxInb=1, Bug="mgr_first", Eager=E1), "MonOK|NoPanicInScope", "not connected|panic"),
    # try_send instead of send().await when handing a substream result to a protocol with a full inbox
    # report_connection_established leaves its send loop at the first failed send (a dropped protocol)
    ("est_break", cfg(MaxCid=1, MaxPerPeer=1, MaxInb=1, MaxFull=1, MaxDropProto=1, Bug="est_break"), "MonOK|NoPanicInScope", "not connected|panic"),
    # the open timeout firing while a request still waits for its stream slot reports nothing
    ("slot_silent", cfg(MaxCid=1, MaxPerPeer=1, MaxOpens=1, Phases=True, Bug="slot_silent"), "QuiesceOK", None),
    ("drop_on_full", cfg(MaxCid=1, MaxPerPeer=1, MaxOpens=1, MaxFull=1, Bug="drop_on_full"), "QuiesceOK", None),
]


def selftest(ctx):
    """(a) binding: corrupted copies of a good recorded trace must be rejected at the corrupted line, and a
    harness that misreports one event class (VERIF_FAULT) must be caught; (b) negative models: SvcLifeMC with
    one seeded defect must violate the monitor."""
    import re
    ok = True
    cargo_build(ctx, ["svc"])
    harness(ctx, "svc", ["--random", 60, "--len", 60, "--seed", ctx.seed, "--out", ctx.path("t.ndjson")])
    lines = read_lines(ctx.path("t.ndjson"))
    _, _, rej = validate_all(ctx, "SvcLifeTrace.tla", "SvcLifeTrace.cfg", lines)
    log("selftest baseline trace: %d lines, %d rejected" % (len(lines), len(rej)))
    ok &= not rej
    rnd = random.Random(ctx.seed)

    def corrupt(name, pick, mutate, expect, among=None):
        nonlocal ok
        cand = [i for i, ln in enumerate(lines) if pick(json.loads(ln))] if among is None else among
        if not cand:
            log("selftest corrupt %s: no candidate line" % name)
            ok = False
            return
        i = rnd.choice(cand)
        ev = json.loads(lines[i])
        mutate(ev)
        bad = lines[:i] + [json.dumps(ev, separators=(",", ":"))] + lines[i + 1:]
        _, _, rj = validate_all(ctx, "SvcLifeTrace.tla", "SvcLifeTrace.cfg", bad, tag="c")
        segs = split_segments(bad, lambda ln: '"e":"reset"' in ln)
        # position of line i inside its segment
        acc, want = 0, None
        for s in segs:
            if acc + len(s) > i:
                want = (i - acc + 1)
                break
            acc += len(s)
        hit = [r for r in rj if re.search(expect, r.reason)]
        at = hit[0][1] if hit else None
        log("selftest corrupt %s at line %d -> %s" % (name, i + 1, "rejected (%s) at segment line %s (corrupted line is %s)"
                                                      % (hit[0].reason, at, want) if hit else "NOT CAUGHT (other rejections: %s)" % [r.reason for r in rj][:3]))
        ok &= bool(hit) and at is not None and at >= want

    isret = lambda a, k: (lambda d: d.get("e") == "step" and d["s"]["a"] == a and d["ret"].get("k") == k)

    def earlier_id(i):
        """an identifier returned earlier in the same execution"""
        j = i - 1
        while j >= 0 and '"e":"reset"' not in lines[j]:
            d = json.loads(lines[j])
            if isret("open", "ok")(d):
                return d["ret"]["id"]
            j -= 1
        return None

    second_open = lambda d: False
    cand2 = [i for i, ln in enumerate(lines) if isret("open", "ok")(json.loads(ln)) and earlier_id(i) is not None]
    def reestablished(i):
        """the closed event at line i is followed, in the same execution, by an established event for the same
        protocol and peer (a closed event nothing follows cannot be missed by any observer)"""
        d = json.loads(lines[i])
        for j in range(i + 1, len(lines)):
            if '"e":"reset"' in lines[j]:
                return False
            e = json.loads(lines[j])
            if isret("poll", "est")(e) and e["s"]["q"] == d["s"]["q"] and e["ret"]["p"] == d["ret"]["p"]:
                return True
        return False

    corrupt("closed event dropped", None, lambda e: e["ret"].update(k="pending"),
            "established reported twice|not connected|closed reported without established",
            among=[i for i, ln in enumerate(lines) if isret("poll", "closed")(json.loads(ln)) and reestablished(i)])
    corrupt("spurious closed event", isret("poll", "pending"), lambda e: e.update(ret={"k": "closed", "p": "p3"}),
            "closed reported without established")
    corrupt("answer id changed", isret("poll", "failed"), lambda e: e["ret"].update(id=e["ret"]["id"] + 1000), "never returned")
    if cand2:
        i2 = rnd.choice(cand2)
        corrupt("open id reused", lambda d, i2=i2: d is not None and json.dumps(d, separators=(",", ":")) == lines[i2],
                lambda e, i2=i2: e["ret"].update(id=earlier_id(i2)), "identifier reused")
    else:
        ok = False
    corrupt("delivery into a full inbox dropped", lambda d: isret("deliver", "ok")(d) and d["s"]["what"] in ("reply", "inbound"),
            lambda e: e["ret"].update(k="err"),
            "does not match|never answered|nobody reported")
    corrupt("manager told early", isret("close", "ok"), lambda e: e["ret"].update(early=True), "manager told")
    corrupt("answer to the wrong protocol", lambda d: isret("poll", "failed")(d) or (isret("poll", "opened")(d) and d["ret"]["dirn"] == "out"),
            lambda e: e["s"].update(q=1 - e["s"]["q"]), "another protocol")
    for fault, expect in [("answer_id", "answer"), ("drop_closed", "established reported twice"), ("id_reuse", "identifier reused"),
                          ("mgr_early", "manager told")]:
        harness(ctx, "svc", ["--random", 60, "--len", 60, "--seed", ctx.seed, "--out", ctx.path("f.ndjson")], env={"VERIF_FAULT": fault})
        _, _, rj = validate_all(ctx, "SvcLifeTrace.tla", "SvcLifeTrace.cfg", read_lines(ctx.path("f.ndjson")), tag="f")
        hit = [r for r in rj if re.search(expect, r.reason)]
        log("selftest harness fault %s -> %d executions rejected (%s)" % (fault, len(rj), hit[0].reason if hit else "NOT CAUGHT"))
        ok &= bool(hit)
    for name, consts, inv, expect in NEG:
        r = tlc_mc(ctx, "SvcLifeMC.tla", write_cfg2(ctx, "neg_%s.cfg" % name, consts, NEG_INV), workers=6, timeout=600, expect_violation=True)
        which = re.findall(r"Invariant (\w+) is violated", r["out"])
        why = sorted({x for x in re.findall(r'bad \|-> "([^"]*)"', r["out"]) if x})
        good = bool(which) and re.fullmatch(inv, which[0]) is not None and \
            (expect is None or which[0] != "MonOK" or any(re.search(expect, x) for x in why))
        log("selftest negative model %s -> %s %s" % (name, ("invariant %s violated" % which[0]) if which else "NOT VIOLATED", why[:2]))
        ok &= bool(good)
    log("SELFTEST %s" % ("ok" if ok else "FAILED"))
    return 0 if ok else 2
