---------------------------- MODULE SubstreamPipeMC ----------------------------
(* Bounded instance of SubstreamPipe for TLC: codec configurations, all sender programs  *)
(* (Sink-API-only or send_framed-only) up to MaxOps calls over the size classes Sizes,   *)
(* exhaustive check of the Prop layer (FramedPipe.tla) and behaviour generation.         *)
EXTENDS SubstreamPipe, Json

CONSTANTS Cfgs, Sizes, MaxOps

SinkOps == [api : {"send", "feed"}, len : Sizes] \cup {[api |-> "flush", len |-> 0]}
FramedOps == [api : {"framed"}, len : Sizes]
SeqsUpTo(S, n) == UNION {[1..k -> S] : k \in 0..n}
Progs == SeqsUpTo(SinkOps, MaxOps) \cup SeqsUpTo(FramedOps, MaxOps)

\* id 1: small fixed frames; id 3: fixed frames above the initial read buffer (RBuf = 2) and the
\* window; uv 3: maximum above the window (W = 2); uv -1: no maximum; uv 0: only empty messages
CfgsDef == {[codec |-> "id", n |-> 1], [codec |-> "id", n |-> 3], [codec |-> "uv", n |-> 3],
            [codec |-> "uv", n |-> -1], [codec |-> "uv", n |-> 0]}
CfgsUv3 == {[codec |-> "uv", n |-> 3]}
\* for W = 3, RBuf = 2, sizes {0, 2, 4, 5}
CfgsW3 == {[codec |-> "id", n |-> 2], [codec |-> "id", n |-> 4], [codec |-> "uv", n |-> 4], [codec |-> "uv", n |-> -1]}
CfgsSmall == {[codec |-> "id", n |-> 3], [codec |-> "uv", n |-> 3]}

Init == \E c \in Cfgs, pr \in Progs : ImplInit(c, pr)
Spec == Init /\ [][ImplNext]_vars
\* everything the sender was asked to do completes under fair polling
FairSpec == Spec /\ WF_vars(\E qt \in Quotas \ {0} : Op(qt) \/ Ps(qt)) /\ WF_vars(Settle)
Completes2 == <>(Done \/ rcv.dead)

Emit == PrintT(<<"B", ToJson([codec |-> cfg.codec, n |-> cfg.n, prog |-> prog, steps |-> hist', kf |-> kf'])>>)
=============================================================================
