------------------------------ MODULE KadRouting ------------------------------
(***************************************************************************)
(* Kademlia routing table (litep2p src/protocol/libp2p/kademlia/           *)
(* routing_table.rs `RoutingTable`, bucket.rs `KBucket`).   Property C14.  *)
(*                                                                         *)
(* Two layers in one module:                                               *)
(*  - Impl*: deterministic transcription of the code, one operator per     *)
(*    public method, (table, op) -> [ret, bk].                             *)
(*  - Prop*: the most liberal step relation C14 allows, a predicate over   *)
(*    (pre-table, op, ret, post-table).                                    *)
(*                                                                         *)
(* The module never computes XOR itself.  Everything that depends on the   *)
(* metric is an argument of the operation record:                          *)
(*    o.xb    bucket index the metric demands for peer o.p                 *)
(*            (ilog2(hash(p) xor local), NoBucket if hash(p) = local)      *)
(*    o.dbits set bits of  local xor target   (closest)                    *)
(*    o.ord   ids of all stored peers with addresses, by increasing        *)
(*            distance to the target           (closest)                   *)
(* The bounded model (KadRoutingMC) derives them from W-bit keys with real *)
(* XOR; the trace spec reads them from the log, where the harness computed *)
(* them with its own SHA-256/XOR arithmetic on the real 256-bit keys.      *)
(*                                                                         *)
(* table : [0..NB-1 -> Seq(entry)]  (stored order of KBucket.nodes)        *)
(* entry : [id, conn, ha, xb, u]                                           *)
(*   id   peer (a number; peers and keys are in bijection)                 *)
(*   conn "N" NotConnected, "C" Connected, "Y" CanConnect, "X" CannotConn. *)
(*   ha   1 iff the address store is non-empty                             *)
(*   xb   bucket index the metric demands for id                           *)
(*   u    1: a peer some caller supplied; 0: the placeholder slot that     *)
(*        KBucket::entry pushes (random id, no address) when it answers    *)
(*        Vacant - the code leaves it behind if the caller does not insert *)
(***************************************************************************)
EXTENDS Naturals, Integers, Sequences, FiniteSets

NoBucket == 999
PHId == 1000

Placeholder == [id |-> PHId, conn |-> "N", ha |-> 0, xb |-> NoBucket, u |-> 0]
NewEntry(p, xb, conn, ha) == [id |-> p, conn |-> conn, ha |-> ha, xb |-> xb, u |-> 1]
EmptyTable(NB) == [i \in 0..(NB - 1) |-> <<>>]

Min2(a, b) == IF a < b THEN a ELSE b
Max2(a, b) == IF a > b THEN a ELSE b
MinOf(S) == CHOOSE x \in S : \A y \in S : x <= y
MaxOf(S) == CHOOSE x \in S : \A y \in S : x >= y
RangeOf(s) == {s[i] : i \in 1..Len(s)}
Take(s, k) == SubSeq(s, 1, Min2(k, Len(s)))
Count(s, x) == Cardinality({i \in 1..Len(s) : s[i] = x})

HasP(o) == o.op # "closest"

-----------------------------------------------------------------------------
(* Impl layer                                                               *)

Replaceable(e) == e.conn \in {"N", "X"}

\* KBucket::entry via RoutingTable::entry: [kind, i, j, bk]
ImplEntry(K, bk, p, xb) ==
  IF xb = NoBucket THEN [kind |-> "local", i |-> 0, j |-> 0, bk |-> bk]
  ELSE LET B == bk[xb]
           hit == {j \in 1..Len(B) : B[j].id = p /\ B[j].u = 1}
           rep == {j \in 1..Len(B) : Replaceable(B[j])}
       IN IF hit # {} THEN [kind |-> "occupied", i |-> xb, j |-> MinOf(hit), bk |-> bk]
          ELSE IF Len(B) < K
            THEN [kind |-> "vacant", i |-> xb, j |-> Len(B) + 1,
                  bk |-> [bk EXCEPT ![xb] = Append(B, Placeholder)]]
          ELSE IF rep # {} THEN [kind |-> "vacant", i |-> xb, j |-> MinOf(rep), bk |-> bk]
          ELSE [kind |-> "noslot", i |-> xb, j |-> 0, bk |-> bk]

\* add_known_peer(p, addresses, conn)
ImplAdd(K, bk, o) ==
  IF o.ha = 0 THEN [ret |-> "ok", bk |-> bk]            \* returns before `entry`
  ELSE LET r == ImplEntry(K, bk, o.p, o.xb) IN
    CASE r.kind = "occupied" -> [ret |-> "ok", bk |-> [r.bk EXCEPT ![r.i][r.j].ha = 1, ![r.i][r.j].conn = o.conn]]
      [] r.kind = "vacant"   -> [ret |-> "ok", bk |-> [r.bk EXCEPT ![r.i][r.j] = NewEntry(o.p, o.xb, o.conn, 1)]]
      [] OTHER               -> [ret |-> "ok", bk |-> r.bk]

\* table.entry(Key::from(p)).insert(KademliaPeer::new(p, addresses, conn))
ImplInsert(K, bk, o) ==
  LET r == ImplEntry(K, bk, o.p, o.xb) IN
  IF r.kind = "vacant"
    THEN [ret |-> r.kind, bk |-> [r.bk EXCEPT ![r.i][r.j] = NewEntry(o.p, o.xb, o.conn, o.ha)]]
    ELSE [ret |-> r.kind, bk |-> r.bk]

\* on_connection_established(key(p), Dialer{address} | Listener)
ImplEst(K, bk, o) ==
  LET r == ImplEntry(K, bk, o.p, o.xb) IN
  IF r.kind = "occupied"
    THEN [ret |-> "ok", bk |-> [r.bk EXCEPT ![r.i][r.j].conn = "C",
                                            ![r.i][r.j].ha = Max2(@, o.dial)]]
    ELSE [ret |-> "ok", bk |-> r.bk]

\* Kademlia::disconnect_peer: Occupied => connection = NotConnected
ImplDisc(K, bk, o) ==
  LET r == ImplEntry(K, bk, o.p, o.xb) IN
  IF r.kind = "occupied"
    THEN [ret |-> r.kind, bk |-> [r.bk EXCEPT ![r.i][r.j].conn = "N"]]
    ELSE [ret |-> r.kind, bk |-> r.bk]

\* on_dial_failure(key(p), addresses): the failed addresses are recorded with a negative score
ImplFail(K, bk, o) ==
  LET r == ImplEntry(K, bk, o.p, o.xb) IN
  IF r.kind = "occupied"
    THEN [ret |-> "ok", bk |-> [r.bk EXCEPT ![r.i][r.j].ha = Max2(@, Min2(o.na, 1))]]
    ELSE [ret |-> "ok", bk |-> r.bk]

ImplLookup(K, bk, o) ==
  LET r == ImplEntry(K, bk, o.p, o.xb) IN [ret |-> r.kind, bk |-> r.bk]

\* ClosestBucketsIter: Start, ZoomIn over the set bits below, the turn-around that always
\* yields bucket 0, ZoomOut over the clear bits from 1 upwards.  Fix = the proposed repair
\* (skip the turn-around when bucket 0 has just been yielded).
BucketOrder(NB, dbits, Fix) ==
  LET start == IF dbits = {} THEN 0 ELSE MaxOf(dbits)
      desc == [i \in 1..NB |-> NB - i]
      asc1 == [i \in 1..(NB - 1) |-> i]
      zin == SelectSeq(desc, LAMBDA b : b < start /\ b \in dbits)
      turn == IF Fix /\ (start = 0 \/ 0 \in dbits) THEN <<>> ELSE <<0>>
      zout == SelectSeq(asc1, LAMBDA b : b \notin dbits)
  IN <<start>> \o zin \o turn \o zout

\* KBucket::closest_iter: sort by distance to the target, keep entries with addresses
BucketSorted(B, ord) ==
  IF B = <<>> THEN <<>>
  ELSE SelectSeq(ord, LAMBDA x : \E j \in 1..Len(B) : B[j].id = x /\ B[j].ha = 1)

RECURSIVE FlatBuckets(_, _, _, _)
FlatBuckets(order, n, bk, ord) ==
  IF n > Len(order) THEN <<>>
  ELSE BucketSorted(bk[order[n]], ord) \o FlatBuckets(order, n + 1, bk, ord)

ImplClosest(NB, Fix, bk, o) ==
  [ret |-> Take(FlatBuckets(BucketOrder(NB, o.dbits, Fix), 1, bk, o.ord), o.k), bk |-> bk]

ImplStep(K, NB, Fix, bk, o) ==
  CASE o.op = "add"     -> ImplAdd(K, bk, o)
    [] o.op = "insert"  -> ImplInsert(K, bk, o)
    [] o.op = "est"     -> ImplEst(K, bk, o)
    [] o.op = "disc"    -> ImplDisc(K, bk, o)
    [] o.op = "fail"    -> ImplFail(K, bk, o)
    [] o.op = "lookup"  -> ImplLookup(K, bk, o)
    [] o.op = "closest" -> ImplClosest(NB, Fix, bk, o)

\* results the caller can see (the other methods return unit)
RetObservable(o) == o.op \in {"insert", "disc", "lookup", "closest"}

\* placeholders carry random ids: compare tables modulo their identity
NormE(e) == IF e.u = 0 THEN Placeholder ELSE e
Norm(bk) == [i \in DOMAIN bk |-> [j \in 1..Len(bk[i]) |-> NormE(bk[i][j])]]

-----------------------------------------------------------------------------
(* Prop layer: what C14 states                                              *)

Stored(bk) == UNION {{bk[i][j] : j \in 1..Len(bk[i])} : i \in DOMAIN bk}
KnownIds(bk) == {e.id : e \in {x \in Stored(bk) : x.u = 1}}
WithAddr(bk) == {e.id : e \in {x \in Stored(bk) : x.ha = 1}}

\* "A peer is stored in the bucket determined by the XOR distance between its hashed id
\*  and the local hashed id, the local node is never stored, a bucket never holds more
\*  than twenty peers."   (xb = NoBucket marks the local key, so it matches no index.)
StateOK(K, bk) ==
  /\ \A i \in DOMAIN bk :
       /\ Len(bk[i]) <= K
       /\ \A j \in 1..Len(bk[i]) : bk[i][j].u = 1 => bk[i][j].xb = i
  \* a peer is stored once: same bucket (by the line above), at most one slot
  /\ \A i \in DOMAIN bk : \A j1, j2 \in 1..Len(bk[i]) :
       (j1 # j2 /\ bk[i][j1].u = 1 /\ bk[i][j2].u = 1) => bk[i][j1].id # bk[i][j2].id

\* "... exactly the k stored peers with known addresses that are closest to the target,
\*  in non-decreasing distance order and without duplicates, or all of them if fewer."
\* o.ord is the distance order of the stored peers with addresses (distinct keys have
\* distinct distances, so the answer is unique).
ClosestOK(S, o, res) ==
  LET A == WithAddr(S) IN
  /\ RangeOf(o.ord) = A
  /\ Len(o.ord) = Cardinality(A)
  /\ res = Take(o.ord, o.k)

\* Ledger of what the *caller* reported: the peers it said are connected (connection
\* established through either endpoint kind, or added / inserted as Connected) and has not
\* since reported otherwise (disconnect, or added / inserted with another connection type).
\* add_known_peer without addresses is documented to be ignored; `insert` is only called on
\* a Vacant entry.  Only stored peers matter: whatever stores a peer also states its
\* connection, so the ledger is kept restricted to the stored peers.
LedUpd(led, o, ret, T) ==
  LET said(c) == IF c = "C" THEN led \cup {o.p} ELSE led \ {o.p}
      l2 == CASE o.op = "est"  -> led \cup {o.p}
              [] o.op = "disc" -> led \ {o.p}
              [] o.op = "add" /\ o.ha = 1 -> said(o.conn)
              [] o.op = "insert" /\ ret = "vacant" -> said(o.conn)
              [] OTHER -> led
  IN l2 \cap KnownIds(T)

\* stored peers as the caller can know them: <<bucket, id, connection, has-address>>
KnownEnt(bk) == UNION {{<<i, bk[i][j].id, bk[i][j].conn, bk[i][j].ha>> :
                          j \in {n \in 1..Len(bk[i]) : bk[i][n].u = 1}} : i \in DOMAIN bk}

\* the calls that store a peer (add_known_peer without addresses is documented to be ignored,
\* `insert` only acts on a Vacant entry); every other call is a lookup / status update
Inserting(o, ret) == (o.op = "add" /\ o.ha = 1) \/ (o.op = "insert" /\ ret = "vacant")

PropFrame(K, S, led, o, ret, T) ==
  LET kS == KnownIds(S)
      kT == KnownIds(T)
      \* connected = reported connected by the caller, or held as Connected by the table
      connected == {e.id : e \in {x \in Stored(S) : x.u = 1 /\ (x.conn = "C" \/ x.id \in led)}}
      own == IF HasP(o) THEN {o.p} ELSE {}
  IN /\ StateOK(K, T)
     \* "a connected peer is never displaced to make room"
     /\ (connected \ own) \subseteq kT
     \* nothing is stored that nobody supplied
     /\ kT \subseteq kS \cup own
     /\ IF Inserting(o, ret)
          \* peers are displaced only "to make room": from the full bucket the new peer goes to
          THEN \A e \in Stored(S) : (e.u = 1 /\ e.id \notin kT /\ e.id \notin own) =>
                  (e.xb = o.xb /\ o.xb \in DOMAIN S /\ Len(S[o.xb]) = K)
          \* a call that does not store a peer (dial failure, connection established,
          \* disconnect, lookup, closest - for a stored or an absent key) stores and loses
          \* nobody and leaves every other stored entry as it was
          ELSE /\ {e \in KnownEnt(T) : e[2] \notin own} = {e \in KnownEnt(S) : e[2] \notin own}
               /\ (own \cap kT) \subseteq kS

PropStep(K, S, led, o, ret, T) ==
  /\ PropFrame(K, S, led, o, ret, T)
  /\ o.op = "closest" => ClosestOK(S, o, ret)

\* Shape of the recorded defect D11 (ClosestBucketsIter yields bucket 0 twice): the peer
\* of bucket 0 appears twice and, apart from its second occurrence, the answer is right.
RemoveLast(s, x) ==
  LET n == MaxOf({i \in 1..Len(s) : s[i] = x}) IN SubSeq(s, 1, n - 1) \o SubSeq(s, n + 1, Len(s))
D11Shape(S, o, res) ==
  /\ o.op = "closest"
  /\ (0 \in o.dbits \/ o.dbits = {})
  /\ \E e \in RangeOf(S[0]) :
       /\ e.ha = 1
       /\ Count(res, e.id) = 2
       /\ ClosestOK(S, [o EXCEPT !.k = o.k - 1], RemoveLast(res, e.id))
=============================================================================
