------------------------------ MODULE KadStore ------------------------------
(***************************************************************************)
(* Kademlia local record / provider store (litep2p                        *)
(* src/protocol/libp2p/kademlia/store.rs, `MemoryStore`).                  *)
(*                                                                         *)
(* Two layers in one module:                                               *)
(*  - Impl*: a deterministic transcription of the code, one operator per   *)
(*    public method (state, args) -> [ret, st].                            *)
(*  - Prop*: the most liberal step relation property C17 allows, as a      *)
(*    predicate over (pre-state, op, ret, post-state).                     *)
(* Time is logical: `now` counts ticks; an entry with expiry e is expired  *)
(* iff e # Never /\ now >= e (code: `now >= expires`).  A provider         *)
(* inserted at time n expires at n+1 (provider_ttl = one tick).            *)
(* Distances are ranks: only the order of XOR distances matters.           *)
(***************************************************************************)
EXTENDS Naturals, Integers, Sequences, FiniteSets

Never == -1

\* ---- configuration record:  [maxRecords, maxSize, maxProvKeys, maxProvPerKey, maxAddrs]
\* ---- state record: [recs, provs, pkeys, local, now]
\*   recs  : set of [k, size, exp]            (at most one per k)
\*   provs : function key -> Seq([p, rank, exp, amb, naddr])
\*   pkeys : set of keys present in the provider map
\*   local : set of keys with a registered local provider
\*   now   : logical time
\* `amb` = 1 marks an expiry that falls inside the op window of period exp-1
\* (only possible for code that computes expiries differently); such an
\* entry may be treated as expired or alive during that period.

InitState(Keys) ==
  [recs |-> {}, provs |-> [k \in Keys |-> <<>>], pkeys |-> {}, local |-> {}, now |-> 0]

ExpiredAt(e, now) == e # Never /\ now >= e
DefinitelyExpired(x, now) == ExpiredAt(x.exp, now)
MaybeExpired(x, now) == ExpiredAt(x.exp, now) \/ (x.amb = 1 /\ x.exp # Never /\ now >= x.exp - 1)

RecOf(S, k) == {r \in S.recs : r.k = k}
HasRec(S, k) == RecOf(S, k) # {}
TheRec(S, k) == CHOOSE r \in RecOf(S, k) : TRUE

SeqToSet(s) == {s[i] : i \in 1..Len(s)}
Peers(s) == {s[i].p : i \in 1..Len(s)}
IndexOfPeer(s, p) == CHOOSE i \in 1..Len(s) : s[i].p = p
\* number of entries with rank strictly below r (binary search insertion point
\* for a list sorted by rank)
InsPoint(s, r) == Cardinality({i \in 1..Len(s) : s[i].rank < r})
InsertAt(s, i, x) == SubSeq(s, 1, i - 1) \o <<x>> \o SubSeq(s, i, Len(s))
RemoveAt(s, i) == SubSeq(s, 1, i - 1) \o SubSeq(s, i + 1, Len(s))
Min(a, b) == IF a < b THEN a ELSE b

-----------------------------------------------------------------------------
(* Impl layer: transcription of store.rs                                    *)

ImplGet(C, S, k) ==
  IF HasRec(S, k) /\ ExpiredAt(TheRec(S, k).exp, S.now)
    THEN [ret |-> [found |-> FALSE], st |-> [S EXCEPT !.recs = @ \ RecOf(S, k)]]
    ELSE IF HasRec(S, k)
      THEN [ret |-> [found |-> TRUE, size |-> TheRec(S, k).size, exp |-> TheRec(S, k).exp], st |-> S]
      ELSE [ret |-> [found |-> FALSE], st |-> S]

ImplPut(C, S, k, size, exp) ==
  LET new == [k |-> k, size |-> size, exp |-> exp] IN
  IF size >= C.maxSize THEN [ret |-> "ok", st |-> S]
  ELSE IF HasRec(S, k)
    THEN LET old == TheRec(S, k) IN
         IF old.exp # Never /\ exp # Never /\ old.exp > exp
           THEN [ret |-> "ok", st |-> S]
           ELSE [ret |-> "ok", st |-> [S EXCEPT !.recs = (@ \ {old}) \cup {new}]]
    ELSE IF Cardinality(S.recs) >= C.maxRecords
      THEN [ret |-> "ok", st |-> S]
      ELSE [ret |-> "ok", st |-> [S EXCEPT !.recs = @ \cup {new}]]

ImplGetProviders(C, S, k) ==
  IF k \notin S.pkeys THEN [ret |-> <<>>, st |-> S]
  ELSE LET live == SelectSeq(S.provs[k], LAMBDA x : ~ExpiredAt(x.exp, S.now)) IN
       IF live = <<>>
         THEN [ret |-> <<>>, st |-> [S EXCEPT !.provs[k] = <<>>, !.pkeys = @ \ {k}]]
         ELSE [ret |-> live, st |-> [S EXCEPT !.provs[k] = live]]

\* shared by put_provider / put_local_provider
ImplPutProviderCore(C, S, k, p, rank, naddr) ==
  LET e == [p |-> p, rank |-> rank, exp |-> S.now + 1, amb |-> 0, naddr |-> Min(naddr, C.maxAddrs)] IN
  IF k \notin S.pkeys
    THEN IF Cardinality(S.pkeys) < C.maxProvKeys
           THEN [ret |-> TRUE, st |-> [S EXCEPT !.provs[k] = <<e>>, !.pkeys = @ \cup {k}]]
           ELSE [ret |-> FALSE, st |-> S]
    ELSE LET L == S.provs[k] IN
         IF p \in Peers(L)
           THEN [ret |-> TRUE, st |-> [S EXCEPT !.provs[k] = [L EXCEPT ![IndexOfPeer(L, p)] = e]]]
           ELSE LET i == InsPoint(L, rank) IN      \* 0-based insertion point
                IF i = C.maxProvPerKey
                  THEN [ret |-> FALSE, st |-> S]
                  ELSE LET L2 == IF Len(L) = C.maxProvPerKey THEN SubSeq(L, 1, Len(L) - 1) ELSE L IN
                       [ret |-> TRUE, st |-> [S EXCEPT !.provs[k] = InsertAt(L2, i + 1, e)]]

ImplPutProvider(C, S, k, p, rank, naddr) == ImplPutProviderCore(C, S, k, p, rank, naddr)

ImplPutLocal(C, S, k, rank) ==
  LET r == ImplPutProviderCore(C, S, k, "local", rank, 0) IN
  IF r.ret THEN [ret |-> TRUE, st |-> [r.st EXCEPT !.local = @ \cup {k}]] ELSE r

ImplRemoveLocal(C, S, k) ==
  IF k \notin S.local THEN [ret |-> "ok", st |-> S]
  ELSE LET S1 == [S EXCEPT !.local = @ \ {k}] IN
       IF k \in S.pkeys /\ "local" \in Peers(S.provs[k])
         THEN LET L2 == RemoveAt(S.provs[k], IndexOfPeer(S.provs[k], "local")) IN
              [ret |-> "ok", st |-> IF L2 = <<>> THEN [S1 EXCEPT !.provs[k] = <<>>, !.pkeys = @ \ {k}]
                                                 ELSE [S1 EXCEPT !.provs[k] = L2]]
         ELSE [ret |-> "panic", st |-> S1]   \* debug_assert!(false) arms

ImplTick(C, S) == [ret |-> "ok", st |-> [S EXCEPT !.now = @ + 1]]

\* op is a record with field `op` and the arguments
ImplStep(C, S, o) ==
  CASE o.op = "get"          -> ImplGet(C, S, o.k)
    [] o.op = "put"          -> ImplPut(C, S, o.k, o.size, o.exp)
    [] o.op = "get_providers"-> ImplGetProviders(C, S, o.k)
    [] o.op = "put_provider" -> ImplPutProvider(C, S, o.k, o.p, o.rank, o.naddr)
    [] o.op = "put_local"    -> ImplPutLocal(C, S, o.k, o.rank)
    [] o.op = "remove_local" -> ImplRemoveLocal(C, S, o.k)
    [] o.op = "tick"         -> ImplTick(C, S)

-----------------------------------------------------------------------------
(* Prop layer: what C17 demands of any implementation                       *)

SortedStrict(L) == \A i, j \in 1..Len(L) : i < j => L[i].rank < L[j].rank

\* state invariant: the five bounds + providers kept sorted by distance
StateOK(C, S) ==
  /\ Cardinality(S.recs) <= C.maxRecords
  /\ \A r \in S.recs : r.size <= C.maxSize
  /\ \A r1, r2 \in S.recs : r1.k = r2.k => r1 = r2
  /\ Cardinality(S.pkeys) <= C.maxProvKeys
  /\ \A k \in DOMAIN S.provs :
       /\ Len(S.provs[k]) <= C.maxProvPerKey
       /\ SortedStrict(S.provs[k])
       /\ \A i \in 1..Len(S.provs[k]) : S.provs[k][i].naddr <= C.maxAddrs
       /\ (k \notin S.pkeys => S.provs[k] = <<>>)

\* frame: nothing appears from nowhere.  Purging entries that may be
\* expired is always allowed, dropping live entries is not.
RecsFrame(S, T, fresh) ==
  /\ \A r \in T.recs : r \in S.recs \/ r \in fresh
  /\ \A r \in S.recs : (r \notin T.recs /\ ~MaybeExpired([exp |-> r.exp, amb |-> 0], S.now))
                          => \E f \in fresh : f.k = r.k /\ f \in T.recs
ProvListFrame(L, L2, now) ==
  /\ \A i \in 1..Len(L2) : \E j \in 1..Len(L) : L2[i] = L[j]
  /\ \A j \in 1..Len(L) : (~MaybeExpired(L[j], now)) => \E i \in 1..Len(L2) : L2[i] = L[j]
ProvsFrameExcept(S, T, ks) ==
  \A k \in DOMAIN S.provs : k \notin ks => ProvListFrame(S.provs[k], T.provs[k], S.now)

PropGet(C, S, o, ret, T) ==
  /\ T.now = S.now /\ T.local = S.local
  /\ RecsFrame(S, T, {})
  /\ ProvsFrameExcept(S, T, {})
  /\ ret.found =>
       /\ \E r \in S.recs : r.k = o.k /\ r.size = ret.size /\ r.exp = ret.exp
       /\ ~ExpiredAt(ret.exp, S.now)          \* never returns an expired record

PropPut(C, S, o, ret, T) ==
  LET new == [k |-> o.k, size |-> o.size, exp |-> o.exp] IN
  /\ T.now = S.now /\ T.local = S.local
  /\ ProvsFrameExcept(S, T, {})
  /\ \A r \in T.recs : r \in S.recs \/ r = new
  /\ \A r \in S.recs : r.k # o.k => (r \in T.recs \/ MaybeExpired([exp |-> r.exp, amb |-> 0], S.now))
  \* a stored record with an expiry is never replaced by one that expires earlier
  /\ \A old \in RecOf(S, o.k) :
       (old.exp # Never /\ o.exp # Never /\ o.exp < old.exp) => old \in T.recs
  \* an over-sized value is never stored
  /\ o.size > C.maxSize => new \notin T.recs \/ new \in S.recs

PropGetProviders(C, S, o, ret, T) ==
  /\ T.now = S.now /\ T.local = S.local
  /\ RecsFrame(S, T, {})
  /\ ProvsFrameExcept(S, T, {})
  /\ \A i \in 1..Len(ret) :
       /\ \E j \in 1..Len(S.provs[o.k]) : S.provs[o.k][j] = ret[i]
       /\ ~DefinitelyExpired(ret[i], S.now)   \* never returns an expired provider
  /\ SortedStrict(ret)

\* put_provider / put_local_provider for provider p at rank `rank`
PropPutProviderCore(C, S, k, p, rank, naddr, ret, T) ==
  LET L == S.provs[k]  L2 == T.provs[k] IN
  /\ T.now = S.now
  /\ RecsFrame(S, T, {})
  /\ ProvsFrameExcept(S, T, {k})
  /\ Peers(L2) \subseteq Peers(L) \cup {p}
  \* entries of other providers are carried over unchanged
  /\ \A i \in 1..Len(L2) : L2[i].p # p => \E j \in 1..Len(L) : L[j] = L2[i]
  \* only the closest are retained: a live provider may only be dropped when
  \* the list is full of closer ones
  /\ \A j \in 1..Len(L) :
       (L[j].p # p /\ L[j].p \notin Peers(L2) /\ ~MaybeExpired(L[j], S.now)) =>
          /\ Len(L2) = C.maxProvPerKey
          /\ \A i \in 1..Len(L2) : L2[i].rank < L[j].rank
  /\ ret = TRUE =>
       /\ p \in Peers(L2)
       \* (re-)announcement stores a fresh entry in place, addresses truncated
       /\ LET e == L2[IndexOfPeer(L2, p)] IN
            /\ e.rank = rank /\ e.naddr = Min(naddr, C.maxAddrs)
            /\ (e.amb = 0 => e.exp = S.now + 1)
            /\ (e.amb = 1 => e.exp \in {S.now + 1, S.now + 2})
  /\ ret = FALSE =>
       \* refused: p not newly added, and refusal is justified by a bound
       /\ (p \in Peers(L2) => p \in Peers(L) /\ L2[IndexOfPeer(L2, p)] = L[IndexOfPeer(L, p)])
       /\ \/ (k \notin S.pkeys /\ Cardinality(S.pkeys) >= C.maxProvKeys)
          \/ (Len(L) >= C.maxProvPerKey /\ \A j \in 1..Len(L) : L[j].rank < rank)
          \/ p \in Peers(L)

PropPutProvider(C, S, o, ret, T) ==
  /\ T.local = S.local
  /\ PropPutProviderCore(C, S, o.k, o.p, o.rank, o.naddr, ret, T)

PropPutLocal(C, S, o, ret, T) ==
  /\ PropPutProviderCore(C, S, o.k, "local", o.rank, 0, ret, T)
  /\ T.local \subseteq S.local \cup {o.k}
  /\ S.local \subseteq T.local

PropRemoveLocal(C, S, o, ret, T) ==
  /\ T.now = S.now
  /\ RecsFrame(S, T, {})
  /\ ProvsFrameExcept(S, T, {o.k})
  /\ T.local = S.local \ {o.k}
  /\ LET L == S.provs[o.k]  L2 == T.provs[o.k] IN
       /\ \A i \in 1..Len(L2) : \E j \in 1..Len(L) : L[j] = L2[i]
       /\ \A j \in 1..Len(L) : (L[j].p # "local" /\ ~MaybeExpired(L[j], S.now))
                                   => \E i \in 1..Len(L2) : L2[i] = L[j]
       /\ o.k \in S.local => "local" \notin Peers(L2)

PropTick(C, S, o, ret, T) ==
  /\ T.now = S.now + 1 /\ T.local = S.local
  /\ RecsFrame(S, T, {})
  /\ ProvsFrameExcept(S, T, {})

PropStep(C, S, o, ret, T) ==
  /\ StateOK(C, T)
  /\ CASE o.op = "get"          -> PropGet(C, S, o, ret, T)
       [] o.op = "put"          -> PropPut(C, S, o, ret, T)
       [] o.op = "get_providers"-> PropGetProviders(C, S, o, ret, T)
       [] o.op = "put_provider" -> PropPutProvider(C, S, o, ret, T)
       [] o.op = "put_local"    -> PropPutLocal(C, S, o, ret, T)
       [] o.op = "remove_local" -> PropRemoveLocal(C, S, o, ret, T)
       [] o.op = "tick"         -> PropTick(C, S, o, ret, T)
=============================================================================
